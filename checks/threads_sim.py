"""S2 / C13 -- derivation is a pure function of root key and path, whatever
happened before: shared wallet/node objects driven by 1-4 client threads under
the baton scheduler; every observation is compared with the same request
evaluated by the library on fresh objects in a freshly forked, history-free
child (the isolated oracle).  See DESIGN.md section 3.
"""
import os
import random

from sim import core, libapi
from sim.base import Simulator, chunked_drops
from sim.sched import Baton

HARD = 2 ** 31
IDX = [0, 1, 2, 19, HARD - 1, HARD, HARD + 1, HARD + 44, HARD + 49, HARD + 84, 2 ** 32 - 1]
NORMAL = [0, 1, 2, 19, HARD - 1]
HARDENED = [HARD, HARD + 1, HARD + 44, HARD + 49, HARD + 84, 2 ** 32 - 1]
VERSIONS_PUB = [None, 0x0488B21E, 0x049D7CB2, 0x04B24746, 0x043587CF, 0x044A5262, 0x045F1CF6]
VERSIONS_PRV = [None, 0x0488ADE4, 0x049D7878, 0x04B2430C, 0x04358394, 0x044A4E28, 0x045F18BC]
TRACED = ["bip32", "base_wallet", "paper_wallet", "bip85", "keys", "wallet_utils", "bip39", "script"]
LEAF = ["helper", "ripemd", "bech32"]
HOT = {"bip32": 3.0, "base_wallet": 3.0, "paper_wallet": 2.0}
MAX_DEPTH = 6

_ISO_MEMO = {}


def fmt_path(path, marker="'", root="m"):
    parts = [root]
    for i in path:
        parts.append(("%d%s" % (i - HARD, marker)) if i >= HARD else str(i))
    return "/".join(parts)


# =========================================================================== generation
class _Gen:
    """Symbolic generation of a plan; tracks which handles will exist."""

    def __init__(self, rng, roots):
        self.rng = rng
        self.roots = roots
        self.handles = {}     # name -> {"root", "path", "private"}
        self.by_owner = {}    # owner -> [names]
        for r in roots:
            self._add("%s.m" % r, r, [], libapi.is_private(libapi.ROOTS[r]), "setup")

    def _add(self, name, root, path, private, owner):
        self.handles[name] = {"root": root, "path": list(path), "private": private}
        self.by_owner.setdefault(owner, []).append(name)

    def pick_handle(self, owner, want_private=None, max_depth=MAX_DEPTH, share=0.3):
        rng = self.rng
        pools = [self.by_owner.get("setup", [])]
        own = self.by_owner.get(owner, [])
        if own:
            pools.append(own)
            pools.append(own)
        if rng.random() < share:
            others = [n for o, ns in self.by_owner.items() if o not in ("setup", owner) for n in ns]
            if others:
                pools = [others]
        for _ in range(12):
            pool = rng.choice(pools)
            if not pool:
                continue
            n = rng.choice(pool)
            h = self.handles[n]
            if want_private is not None and h["private"] != want_private:
                continue
            if len(h["path"]) > max_depth:
                continue
            return n
        return rng.choice(self.by_owner["setup"])

    def rand_index(self, private, refusal=0.1):
        rng = self.rng
        if private:
            return rng.choice(IDX)
        if rng.random() < refusal:
            return rng.choice(HARDENED)
        return rng.choice(NORMAL)

    def node_op(self, owner, out):
        """An op that derives new nodes."""
        rng = self.rng
        kind = rng.choice(["ckd", "ckd", "derive_path", "derive_path", "generate_children", "by_path"])
        if kind == "by_path":
            r = rng.choice(self.roots)
            private = libapi.is_private(libapi.ROOTS[r])
            depth = rng.randint(1, 5)
            if private and rng.random() < 0.6:
                purpose = rng.choice([44, 49, 84])
                coin = 1 if libapi.ROOTS[r].get("testnet") else 0
                full = [purpose + HARD, coin + HARD, rng.choice([0, 1]) + HARD, rng.choice([0, 1]), rng.choice(NORMAL)]
                path = full[:depth]
            else:
                path = [self.rand_index(private, 0.05) for _ in range(depth)]
            s = fmt_path(path, rng.choice(["'", "h"]), rng.choice(["m", "M"]) if not private else "m")
            ok = private or all(i < HARD for i in path)
            if ok:
                self._add(out, r, path, private, owner)
            return {"op": "by_path", "root": r, "s": s, "path": path, "out": out}
        h = self.pick_handle(owner, max_depth=MAX_DEPTH - 1)
        hd = self.handles[h]
        if kind == "ckd":
            i = self.rand_index(hd["private"])
            if hd["private"] or i < HARD:
                self._add(out, hd["root"], hd["path"] + [i], hd["private"], owner)
            return {"op": "ckd", "h": h, "i": i, "out": out}
        if kind == "derive_path":
            k = rng.randint(1, max(1, min(4, MAX_DEPTH - len(hd["path"]))))
            il = [self.rand_index(hd["private"], 0.05) for _ in range(k)]
            if hd["private"] or all(i < HARD for i in il):
                self._add(out, hd["root"], hd["path"] + il, hd["private"], owner)
            return {"op": "derive_path", "h": h, "il": il, "out": out}
        a = rng.choice([0, 1, 2, 19, HARD - 2] + ([HARD - 1, HARD, 2 ** 32 - 3] if hd["private"] else []))
        n = rng.randint(0, 3)
        b = min(a + n, 2 ** 32)
        for j, i in enumerate(range(a, b)):
            self._add("%s.%d" % (out, j), hd["root"], hd["path"] + [i], hd["private"], owner)
        return {"op": "generate_children", "h": h, "interval": [a, b], "out": out}

    def value_op(self, owner):
        rng = self.rng
        kind = rng.choice(["addr", "addr", "ext_keys", "xpub", "xprv", "str", "fingerprint", "pfp", "node",
                           "bip85", "paper"])
        if kind == "bip85":
            r = rng.choice(self.roots)
            app = rng.choice(["mnemonic", "wif", "xprv", "hex", "pwd"])
            a = {"mnemonic": rng.choice([12, 15, 18, 21, 24]), "hex": rng.choice([16, 32, 33, 64]),
                 "pwd": rng.choice([20, 21, 64, 86])}.get(app)
            return {"op": "bip85", "root": r, "app": app, "a": a, "i": rng.choice([0, 1, 2, HARD - 1])}
        if kind == "paper":
            r = rng.choice(self.roots)
            which = rng.choice(["bip44", "bip49", "bip84", "generate", "wasabi", "json"])
            a = rng.choice([0, 0, 1, 19])
            s = rng.choice([0, 0, 1, 2, 19])
            return {"op": "paper", "root": r, "which": which, "account": a, "interval": [s, s + rng.randint(0, 2)]}
        h = self.pick_handle(owner, max_depth=99)
        op = {"op": kind, "h": h}
        if kind == "addr":
            op["fn"] = rng.choice(libapi.ADDR_FNS)
        if kind == "xpub":
            op["version"] = rng.choice(VERSIONS_PUB)
        if kind == "xprv":
            op["version"] = rng.choice(VERSIONS_PRV)
        return op


SCAN_LADDER_QUICK = {0: 1100, 4: 300}
SCAN_LADDER_THOROUGH = {0: 1100, 4: 300, 8: 4200, 12: 2100}


def gen_plan(seed, tier, idx):
    rng = random.Random(seed)
    config = ["single", "preempt", "opgran", "preempt"][idx % 4]
    scan_n = (SCAN_LADDER_THOROUGH if tier == "thorough" else SCAN_LADDER_QUICK).get(idx)
    n_roots = rng.randint(2, 4)
    names = list(libapi.ROOTS)
    roots = [rng.choice(libapi.PRIVATE_ROOTS)]
    if rng.random() < 0.5:
        # the same key material reached two ways: a full wallet and an extended-key import of one of its nodes
        al = rng.choice(sorted(libapi.ALIASES))
        roots = [libapi.ALIASES[al][0], al]
    while len(roots) < n_roots:
        r = rng.choice(names)
        if r not in roots:
            roots.append(r)
    roots.sort()
    g = _Gen(rng, roots)
    setup = []
    # shared handles that always exist: account / chain level nodes clients will collide on
    k = 0
    for r in roots:
        spec = libapi.ROOTS[r]
        if libapi.is_private(spec):
            coin = (1 if (spec.get("testnet") or spec.get("key", "x")[0] in "tuv") else 0) + HARD
            purpose = rng.choice([44, 49, 84]) + HARD
            other = rng.choice([p_ for p_ in (44, 49, 84) if p_ + HARD != purpose]) + HARD
            for path in ([purpose, coin, HARD], [purpose, coin, HARD, 0], [other, coin, HARD]):
                name = "%s.s%d" % (r, k)
                k += 1
                setup.append({"op": "by_path", "root": r, "s": fmt_path(path), "path": path, "out": name})
                g._add(name, r, path, True, "setup")
        else:
            name = "%s.s%d" % (r, k)
            k += 1
            i = rng.choice(NORMAL)
            setup.append({"op": "ckd", "h": "%s.m" % r, "i": i, "out": name})
            g._add(name, r, [i], False, "setup")
    alias_ops = []
    for r in roots:
        if r in libapi.ALIASES and libapi.ALIASES[r][0] in roots:
            full, apath = libapi.ALIASES[r]
            name = "%s.s%d" % (full, k)
            k += 1
            setup.append({"op": "by_path", "root": full, "s": fmt_path(apath), "path": apath, "out": name})
            g._add(name, full, apath, True, "setup")
            # the same relative sub-path requested under both objects, in a seeded order (by a client)
            sub = [rng.choice(NORMAL) for _ in range(rng.randint(1, 2))]
            pair = [{"op": "derive_path", "h": name, "il": sub}, {"op": "derive_path", "h": "%s.m" % r, "il": sub}]
            rng.shuffle(pair)
            alias_ops.append((pair, full, apath, r, sub))
    if config == "single":
        n_clients = 1
        lens = [rng.randint(8, 40 if tier == "thorough" else 28)]
        if scan_n:
            lens = [rng.randint(3, 6)]
    else:
        n_clients = rng.randint(2, 4)
        lens = [rng.randint(3, 12) for _ in range(n_clients)]
    clients = []
    for c in range(n_clients):
        ops = []
        owner = "c%d" % c
        gens = []
        if c == 0:
            for ai, (pair, full, apath, r, sub) in enumerate(alias_ops):
                for pi, op in enumerate(pair):
                    out = "c0.a%d%d" % (ai, pi)
                    op["out"] = out
                    hd = g.handles[op["h"]]
                    g._add(out, hd["root"], hd["path"] + sub, hd["private"], owner)
                    ops.append(op)
                    ops.append({"op": rng.choice(["ext_keys", "str", "node"]), "h": out})
        for j in range(lens[c]):
            out = "c%d.%d" % (c, j)
            x = rng.random()
            if x < 0.03 and ops and ops[-1]["op"] == "by_path" and ops[-1]["path"] and ops[-1]["path"][-1] < HARD \
                    and len(str(ops[-1]["path"][-1])) < 9:
                # textual-prefix pair: the next path continues the previous one by ONE CHARACTER (m/../1 then m/../19),
                # which a string-prefix shortcut would mistake for a deeper path
                prev = ops[-1]
                np_ = prev["path"][:-1] + [int(str(prev["path"][-1]) + rng.choice("0159"))]
                s2 = prev["s"] + str(np_[-1])[-1]
                ops.append({"op": "by_path", "root": prev["root"], "s": s2, "path": np_, "out": out})
                g._add(out, prev["root"], np_, libapi.is_private(libapi.ROOTS[prev["root"]]), owner)
            elif x < 0.05:
                # a NEW wallet object for one of the roots, created in the middle of the history
                r = rng.choice(roots)
                nm = "%s~%d%d" % (r, c, j)
                ops.append({"op": "rebuild", "root": r, "out": nm})
                g._add(nm + ".m", r, [], libapi.is_private(libapi.ROOTS[r]), owner)
            elif x < 0.42:
                ops.append(g.node_op(owner, out))
            elif x < 0.60:
                # address generator life cycle
                if gens and rng.random() < 0.75:
                    gname = rng.choice(gens)
                    if rng.random() < 0.6:
                        ops.append({"op": "gen_next", "g": gname})
                    else:
                        ops.append({"op": "gen_send", "g": gname, "k": rng.choice([1, 2, 3, 5])})
                else:
                    h = g.pick_handle(owner, max_depth=MAX_DEPTH - 1, share=0.5)
                    gname = "g%d.%d" % (c, j)
                    gens.append(gname)
                    ops.append({"op": "gen_new", "h": h, "fn": rng.choice((None,) + libapi.ADDR_FNS), "g": gname})
                    ops.append({"op": "gen_next", "g": gname})
            else:
                ops.append(g.value_op(owner))
        clients.append(ops)
    if config != "single" and rng.random() < 0.6:
        # collision burst: all clients derive DIFFERENT new indexes from one shared node at about the same point of
        # their histories, and re-derive one of them later (a per-node child memo must survive that)
        hub = rng.choice(g.by_owner["setup"])
        hd = g.handles[hub]
        if len(hd["path"]) < MAX_DEPTH:
            pool = [i for i in ([3, 4, 5, 6, 7, 8, 9, 10, 11] if not hd["private"] else
                                [3, 4, 5, 6, HARD + 3, HARD + 4, 7, 8, 9])]
            rng.shuffle(pool)
            idxs = pool[:len(clients)]
            for c, ops in enumerate(clients):
                at = rng.randint(0, min(3, len(ops)))
                out = "c%d.b" % c
                ops.insert(at, {"op": "ckd", "h": hub, "i": idxs[c], "out": out})
                g._add(out, hd["root"], hd["path"] + [idxs[c]], hd["private"], "c%d" % c)
            for c, ops in enumerate(clients):
                again = idxs[(c + 1) % len(idxs)]
                ops.append({"op": rng.choice(["ckd", "derive_path"]), "h": hub, "out": "c%d.r" % c,
                            **({"i": again} if True else {})})
                if ops[-1]["op"] == "derive_path":
                    ops[-1]["il"] = [again]
                    del ops[-1]["i"]
                g._add("c%d.r" % c, hd["root"], hd["path"] + [again], hd["private"], "c%d" % c)
    if config != "single" and rng.random() < 0.5:
        # family burst: every client issues a request of the same family (BIP85 / paper wallet / extended keys) on the
        # SAME wallet at about the same point of its history, and repeats one later: per-wallet scratch state
        # (a remembered parent, a current version, a current account) must survive concurrent use
        fam = rng.choice(["bip85", "bip85", "paper", "ext_keys", "by_path_scan", "by_path_scan"])
        priv = [r for r in roots if libapi.is_private(libapi.ROOTS[r])]
        r = rng.choice(priv)
        apps = [("mnemonic", 12), ("wif", None), ("xprv", None), ("hex", 32), ("pwd", 21), ("mnemonic", 24)]
        rng.shuffle(apps)
        accts = [h for h in g.by_owner["setup"] if g.handles[h]["root"] == r and g.handles[h]["private"]]
        if fam == "by_path_scan":
            # address scans through by_path: every client walks consecutive indexes under ITS OWN parent (receive
            # chain, change chain, another account) of the SAME wallet - per-wallet "last parent" shortcuts must cope
            spec_r = libapi.ROOTS[r]
            coin = (1 if (spec_r.get("testnet") or spec_r.get("key", "x")[0] in "tuv") else 0) + HARD
            purpose = rng.choice([44, 49, 84]) + HARD
            for c, ops in enumerate(clients):
                parent = [purpose, coin, HARD + (c // 2), c % 2]
                at = rng.randint(0, min(2, len(ops)))
                scan = []
                for k_ in range(rng.randint(2, 4)):
                    pth = parent + [k_]
                    nm = "c%d.s%d" % (c, k_)
                    scan.append({"op": "by_path", "root": r, "s": fmt_path(pth), "path": pth, "out": nm})
                    g._add(nm, r, pth, True, "c%d" % c)
                ops[at:at] = scan
                pth = parent + [7]
                ops.append({"op": "by_path", "root": r, "s": fmt_path(pth), "path": pth, "out": "c%d.s7" % c})
                g._add("c%d.s7" % c, r, pth, True, "c%d" % c)
        for c, ops in enumerate(clients if fam != "by_path_scan" else []):
            def mk_op(k):
                if fam == "bip85":
                    a = apps[(c + k) % len(apps)]
                    return {"op": "bip85", "root": r, "app": a[0], "a": a[1], "i": rng.choice([0, 1])}
                if fam == "paper":
                    return {"op": "paper", "root": r, "which": ["bip44", "bip49", "bip84", "generate"][(c + k) % 4],
                            "account": (c + k) % 3, "interval": [0, 1]}
                return {"op": "ext_keys", "h": rng.choice(accts) if accts else "%s.m" % r}
            ops.insert(rng.randint(0, min(2, len(ops))), mk_op(0))
            ops.append(mk_op(1))
    if scan_n and config == "single":
        # LONG SCAN: a child is obtained, then more than a thousand further indexes are derived from the same node
        # (an address scan), then the first child is observed again: size-bounded bookkeeping must not change it
        hubs = [h for h in g.by_owner["setup"] if len(g.handles[h]["path"]) >= 1] or g.by_owner["setup"]
        hub = rng.choice(hubs)
        hd = g.handles[hub]
        ops = clients[0]
        ops.append({"op": "ckd", "h": hub, "i": 3, "out": "c0.keep"})
        g._add("c0.keep", hd["root"], hd["path"] + [3], hd["private"], "c0")
        ops.append({"op": "ext_keys", "h": "c0.keep"})
        ops.append({"op": "scan", "h": hub, "interval": [0, scan_n]})
        for vo in ("node", "ext_keys", "str", "pfp"):
            ops.append({"op": vo, "h": "c0.keep"})
    # OBJECT LIFETIME / COLLECTOR SCHEDULE: a node is obtained from a wallet object that is dropped at once (the chained
    # expression `Wallet(...).by_path(p)`), the cyclic collector runs at a seeded point (automatic collection is off
    # during a run, so the plan alone decides when unreachable wallets, roots and intermediate nodes disappear), and
    # the surviving node is asked for its path, fingerprints and extended keys later. Drawn from a second PRNG so that
    # the rest of the plan is the same as without these operations.
    rng2 = random.Random((seed * 0x9E3779B1 + 0x51F15E) % 2 ** 64)
    if not scan_n and rng2.random() < 0.55:
        for c, ops in enumerate(clients):
            if rng2.random() < (0.8 if c == 0 else 0.4):
                r = rng2.choice(roots)
                private = libapi.is_private(libapi.ROOTS[r])
                depth = rng2.randint(2, 5)
                if private and rng2.random() < 0.6:
                    spec_r = libapi.ROOTS[r]
                    coin = (1 if (spec_r.get("testnet") or spec_r.get("key", "x")[0] in "tuv") else 0) + HARD
                    path = [rng2.choice([44, 49, 84]) + HARD, coin, rng2.choice([0, 1]) + HARD, rng2.choice([0, 1]),
                            rng2.choice(NORMAL)][:depth]
                else:
                    path = [rng2.choice(NORMAL) if (not private or rng2.random() < 0.5) else rng2.choice(IDX)
                            for _ in range(depth)]
                out = "c%d.o" % c
                op = {"op": "orphan", "root": r, "via": rng2.choice(["by_path", "derive_path", "ckd_chain", "child_of_by_path"]),
                      "s": fmt_path(path), "path": path, "out": out, "gc": rng2.random() < 0.6}
                g._add(out, r, path, private, "c%d" % c)
                at = rng2.randint(0, len(ops))
                later = [{"op": k} for k in rng2.sample(["node", "str", "pfp", "ext_keys", "fingerprint", "addr"], 3)]
                for o in later:
                    o["h"] = out
                    if o["op"] == "addr":
                        o["fn"] = rng2.choice(libapi.ADDR_FNS)
                ops[at:at] = [op, later[0]]
                if rng2.random() < 0.7:
                    ops.insert(rng2.randint(at + 2, len(ops)), {"op": "gc"})
                ops.append(later[1])
                if len(path) < MAX_DEPTH and rng2.random() < 0.5:
                    i = rng2.choice(NORMAL)
                    ops.append({"op": "ckd", "h": out, "i": i, "out": out + "c"})
                    g._add(out + "c", r, path + [i], private, "c%d" % c)
                ops.append(later[2])
    # REFUSED LOOKUP IN THE MIDDLE OF A HISTORY: by_path(P1) succeeds, by_path(P2) is refused PART-WAY (some levels
    # that differ from P1 were already derived when a later level raises: a hardened step on a watch-only wallet, an
    # index that does not fit 32 bits), then by_path(P3) shares P2's first levels but not P1's. Bookkeeping that was
    # half-updated by the failed call must not leak into the third answer.
    if not scan_n and rng2.random() < 0.45:
        c = rng2.randrange(len(clients))
        ops = clients[c]
        r = rng2.choice(roots)
        private = libapi.is_private(libapi.ROOTS[r])
        if private:
            spec_r = libapi.ROOTS[r]
            coin = (1 if (spec_r.get("testnet") or spec_r.get("key", "x")[0] in "tuv") else 0) + HARD
            pa, pb = rng2.sample([44, 49, 84], 2)
            tail = [rng2.choice([0, 1]) + HARD, rng2.choice([0, 1])]
            i1, i3 = rng2.choice(NORMAL), rng2.choice(NORMAL)
            p1 = [pa + HARD, coin] + tail + [i1]
            keep = rng2.randint(1, 4)             # number of leading levels of P2 that are derived before the refusal
            p2 = ([pb + HARD, coin] + tail)[:keep] + [rng2.choice([2 ** 32, 2 ** 32 + 5, 2 ** 40])]
            p3 = [pb + HARD, coin] + tail + [rng2.choice([i1, i3])]
        else:
            a, b = rng2.sample(NORMAL, 2)
            p1 = [a, rng2.choice(NORMAL)]
            p2 = [b] + [rng2.choice(NORMAL) for _ in range(rng2.randint(0, 2))] + [rng2.choice(HARDENED)]
            p3 = [b] + p2[1:-1] + [rng2.choice(NORMAL)]
        # the refusal may sit in the MIDDLE of P2 (levels after it were requested but never derived) ...
        p2 = p2 + [rng2.choice(NORMAL) for _ in range(rng2.choice([0, 0, 1, 2]))]
        # ... and a fourth lookup asks for the refused path again, or for a sibling below the refused step:
        # it must be refused again, whatever the failed call left behind
        p4 = list(p2) if (len(p2) < 2 or rng2.random() < 0.5) else p2[:-1] + [rng2.choice(NORMAL)]
        mk_ = "'"
        rootc = "m" if private else rng2.choice(["m", "M"])
        trip = []
        seq = [(0, p1), (1, p2)] + rng2.sample([(2, p3), (3, p4)], 2)
        for k_, pth in seq:
            nm = "c%d.t%d" % (c, k_)
            trip.append({"op": "by_path", "root": r, "s": fmt_path(pth, mk_, rootc), "path": pth, "out": nm})
            if k_ in (0, 2):
                g._add(nm, r, pth, private, "c%d" % c)
        at = rng2.randint(0, len(ops))
        follow = {"op": rng2.choice(["node", "ext_keys", "str"]), "h": "c%d.t2" % c}
        ops[at:at] = trip + [follow]
    for c, ops in enumerate(clients):
        for j, op in enumerate(ops):
            op["id"] = "c%d#%d" % (c, j)
    # teardown: re-observe a few handles after everything else happened
    allh = sorted(g.handles)
    teardown = [{"op": "node", "h": h} for h in rng.sample(allh, min(len(allh), 4))]
    if config == "single":
        sched = {"mode": "seeded", "policy": "opgran", "p_op": 0.0, "sched_seed": rng.getrandbits(32)}
    elif config == "opgran":
        sched = {"mode": "seeded", "policy": "opgran", "p_op": rng.choice([0.3, 0.7, 1.0]),
                 "sched_seed": rng.getrandbits(32)}
    else:
        pol = rng.choice(["bernoulli", "bernoulli", "conflict", "conflict", "sparse", "atomic", "atomic", "publish",
                          "publish", "publish"])
        sched = {"mode": "seeded", "policy": pol, "sched_seed": rng.getrandbits(32)}
        if pol == "bernoulli":
            sched["p"] = rng.choice([0.02, 0.1, 0.3])
            sched["p_op"] = rng.choice([0.1, 0.5])
        elif pol == "conflict":
            sched["p"] = rng.choice([0.1, 0.3, 0.5])
            sched["p_op"] = rng.choice([0.3, 0.7])
        elif pol == "publish":
            sched["k"] = rng.choice([1, 2, 3])
        elif pol == "atomic":
            sched["mod"] = rng.choice([12, 25, 40])
            sched["res"] = rng.randrange(sched["mod"])
            sched["k"] = rng.choice([1, 1, 2, 3, 5])
        else:
            d = rng.choice([1, 2, 3, 6])
            horizon = sum(lens) * 250
            sched["points"] = sorted(rng.randrange(1, horizon) for _ in range(d))
    gran = "line"
    if config == "preempt" and rng.random() < 0.34:
        gran = "opcode"
        if sched.get("policy") in ("publish", "conflict", "sparse") or rng.random() < 0.5:
            # instruction granularity is where intra-line windows live: test every access to a field of `self`
            m_ = rng.choice([1, 2, 2, 3])
            sched = {"mode": "seeded", "policy": "access", "k": rng.choice([1, 2, 3]), "mod": m_,
                     "res": rng.randrange(m_), "sched_seed": sched["sched_seed"]}
    cfg = {"config": config, "granularity": gran, "trace_leaf_files": rng.random() < 0.35,
           "step_cap": 200000}
    return {"property": "C13", "seed": seed, "config": cfg,
            "roots": {r: libapi.ROOTS[r] for r in roots},
            "setup": setup, "clients": clients, "teardown": teardown, "sched": sched}


# =========================================================================== execution (in the run child)
class _Exec:
    def __init__(self, plan):
        self.plan = plan
        self.records = []
        self.handles = {}    # name -> (root, path, node)
        self.wallets = {}
        self.gens = {}       # gname -> dict(gen, root, path, fn, index, owner)
        self.touch = {}      # handle name -> number of derivations made from it (any client)
        self.skipped = 0
        self.stats = {"ops": {}, "handle_users": {}}

    def rec(self, who, j, query, obs):
        self.records.append({"who": who, "j": j, "q": query, "obs": obs})

    def q(self, root, path, **kw):
        d = {"root": self.plan["roots"][root], "path": list(path)}
        d.update(kw)
        return d

    def setup_roots(self):
        for r, spec in sorted(self.plan["roots"].items()):
            w = libapi.build_wallet(spec)
            self.wallets[r] = w
            self.handles["%s.m" % r] = (r, [], w.master)
            self.rec("setup", -1, self.q(r, [], op="node"), libapi.canon_node(w.master))

    def use(self, who, h):
        self.stats["handle_users"].setdefault(h, set()).add(who)

    def do(self, who, j, op, sched=None, cid=None):
        kind = op["op"]
        self.stats["ops"][kind] = self.stats["ops"].get(kind, 0) + 1
        hname = op.get("h")
        if sched is not None:
            obj = hname or (self.gens.get(op.get("g"), {}).get("h") if "g" in op else None) or \
                ("%s.m" % op["root"] if "root" in op else None)
            sched.op_in_flight[cid] = (kind, obj)
            del sched.in_ckd[cid][:]
        try:
            self._do(who, j, op, kind, hname)
        finally:
            if sched is not None:
                sched.op_in_flight[cid] = None

    def _do(self, who, j, op, kind, hname):
        if hname is not None:
            if hname not in self.handles:
                self.skipped += 1
                return
            root, path, node = self.handles[hname]
            self.use(who, hname)
            w = self.wallets.get(hname.split(".")[0], self.wallets[root])
        if kind == "by_path":
            root = op["root"]
            w = self.wallets[root]
            self.use(who, "%s.m" % root)
            try:
                n = w.by_path(op["s"])
                obs = libapi.canon_node(n)
                self.handles[op["out"]] = (root, list(op["path"]), n)
            except Exception as e:
                obs = libapi.exc_obs(e)
            self.rec(who, j, {"root": self.plan["roots"][root], "op": "by_path", "s": op["s"]}, obs)
            # concatenation clause: by_path(s) must equal derive_path(list) from the root
            self.rec(who, j, self.q(root, op["path"], op="node"), obs)
        elif kind == "gc":
            import gc
            self.stats["collector_runs"] = self.stats.get("collector_runs", 0) + 1
            self.stats["collected_objects"] = self.stats.get("collected_objects", 0) + gc.collect()
        elif kind == "orphan":
            import gc
            root = op["root"]
            try:
                n = _orphan_node(self.plan["roots"][root], op)
                if op.get("gc"):
                    self.stats["collector_runs"] = self.stats.get("collector_runs", 0) + 1
                    self.stats["collected_objects"] = self.stats.get("collected_objects", 0) + gc.collect()
                obs = libapi.canon_node(n)
                self.handles[op["out"]] = (root, list(op["path"]), n)
                self.stats["orphans"] = self.stats.get("orphans", 0) + 1
            except Exception as e:
                obs = libapi.exc_obs(e)
            self.rec(who, j, self.q(root, op["path"], op="node"), obs)
        elif kind == "rebuild":
            root = op["root"]
            w2 = libapi.build_wallet(self.plan["roots"][root])
            self.wallets[op["out"]] = w2
            self.handles[op["out"] + ".m"] = (root, [], w2.master)
            self.rec(who, j, self.q(root, [], op="node"), libapi.canon_node(w2.master))
        elif kind == "ckd":
            self.touch[hname] = self.touch.get(hname, 0) + 1
            try:
                n = node.ckd(index=op["i"])
                obs = libapi.canon_node(n)
                self.handles[op["out"]] = (root, path + [op["i"]], n)
            except Exception as e:
                obs = libapi.exc_obs(e)
            self.rec(who, j, self.q(root, path + [op["i"]], op="node"), obs)
        elif kind == "derive_path":
            self.touch[hname] = self.touch.get(hname, 0) + 1
            try:
                n = node.derive_path(index_list=list(op["il"]))
                obs = libapi.canon_node(n)
                self.handles[op["out"]] = (root, path + list(op["il"]), n)
            except Exception as e:
                obs = libapi.exc_obs(e)
            self.rec(who, j, self.q(root, path + list(op["il"]), op="node"), obs)
        elif kind == "generate_children":
            self.touch[hname] = self.touch.get(hname, 0) + 1
            a, b = op["interval"]
            try:
                ns = node.generate_children(interval=(a, b))
                obs = [libapi.canon_node(n) for n in ns]
                for k, n in enumerate(ns):
                    self.handles["%s.%d" % (op["out"], k)] = (root, path + [a + k], n)
            except Exception as e:
                obs = libapi.exc_obs(e)
            self.rec(who, j, self.q(root, path, op="children", interval=[a, b]), obs)
        elif kind == "scan":
            self.touch[hname] = self.touch.get(hname, 0) + 1
            a, b = op["interval"]
            try:
                ns = node.generate_children(interval=(a, b))
                obs = {"n": len(ns), "first": libapi.canon_node(ns[0]), "last": libapi.canon_node(ns[-1])}
            except Exception as e:
                obs = libapi.exc_obs(e)
            self.rec(who, j, self.q(root, path, op="scan", interval=[a, b]), obs)
        elif kind in ("addr", "ext_keys", "xpub", "xprv", "str", "fingerprint", "pfp", "node"):
            qq = {k: v for k, v in op.items() if k not in ("h",)}
            try:
                obs = libapi.value_op(w, node, qq)
            except Exception as e:
                obs = libapi.exc_obs(e)
            self.rec(who, j, self.q(root, path, **qq), obs)
        elif kind in ("bip85", "paper"):
            root = op["root"]
            w = self.wallets[root]
            self.use(who, "%s.m" % root)
            qq = {k: v for k, v in op.items() if k != "root"}
            try:
                obs = libapi.value_op(w, w.master, qq)
            except Exception as e:
                obs = libapi.exc_obs(e)
            self.rec(who, j, self.q(root, [], **qq), obs)
        elif kind == "gen_new":
            fn = getattr(w, op["fn"]) if op["fn"] else None
            self.gens[op["g"]] = {"gen": w.address_generator(node, fn), "root": root, "path": path,
                                  "fn": op["fn"] or "p2wpkh_address", "index": None, "h": hname,
                                  "touch": self.touch.get(hname, 0)}
        elif kind in ("gen_next", "gen_send"):
            g = self.gens.get(op["g"])
            if g is None:
                self.skipped += 1
                return
            self.use(who, g["h"])
            if g["index"] is None:
                g["index"] = 0
                send = None                     # a just-started generator only accepts next()
            elif kind == "gen_next":
                g["index"] += 1
                send = None
            else:
                g["index"] += op["k"]
                send = op["k"]
            if self.touch.get(g["h"], 0) != g["touch"]:
                self.stats["gen_resumed_after_foreign_derivation"] = \
                    self.stats.get("gen_resumed_after_foreign_derivation", 0) + 1
            try:
                item = next(g["gen"]) if send is None else g["gen"].send(send)
                obs = [item[0], item[1]]
            except Exception as e:
                obs = libapi.exc_obs(e)
            self.touch[g["h"]] = self.touch.get(g["h"], 0) + 1
            g["touch"] = self.touch[g["h"]]
            self.rec(who, j, self.q(g["root"], g["path"] + [g["index"]], op="gen_item", fn=g["fn"]), obs)
        else:
            raise core.HarnessError("unknown op kind %r" % kind)


def _orphan_node(spec, op):
    """A node whose wallet, root and intermediate ancestors are referenced by nobody but the library's own links
    once this frame returns."""
    w = libapi.build_wallet(spec)
    via = op["via"]
    if via == "by_path":
        return w.by_path(op["s"])
    if via == "derive_path":
        return w.master.derive_path(index_list=list(op["path"]))
    if via == "child_of_by_path":
        return w.by_path(fmt_path(op["path"][:-1])).ckd(index=op["path"][-1])
    n = w.master
    for i in op["path"]:
        n = n.ckd(index=i)
    return n


def _lib_files():
    import btc_hd_wallet
    d = os.path.dirname(btc_hd_wallet.__file__)
    return d


def _run_child(plan):
    """Executes one simulated run; returns records + schedule log + stats."""
    import sys
    sys.setswitchinterval(1000.0)   # no involuntary GIL hand-over matters: only one thread is ever runnable
    import gc
    gc.disable()                    # the cyclic collector runs when the plan says so (ops `gc` / `orphan`), never in between
    cfg = plan["config"]
    ex = _Exec(plan)
    ex.setup_roots()
    for j, op in enumerate(plan["setup"]):
        ex.do("setup", j, op)
    d = _lib_files()
    names = list(TRACED) + (LEAF if cfg.get("trace_leaf_files") else [])
    weights = {os.path.join(d, n + ".py"): HOT.get(n, 1.0) for n in names}
    opfiles = [os.path.join(d, n + ".py") for n in ("bip32", "base_wallet", "paper_wallet", "bip85")] \
        if cfg["granularity"] == "opcode" else []
    n = len(plan["clients"])
    b = Baton(n, plan["sched"], weights, opfiles, cfg.get("step_cap", 200000))
    import btc_hd_wallet.__main__  # noqa: make sure every module of the package is loaded
    from sim.sched import library_code_objects
    b.install(library_code_objects(d))

    def mk(c):
        ops = plan["clients"][c]

        def obj_of(op):
            if "h" in op:
                return op["h"]
            if "g" in op:
                return ex.gens.get(op["g"], {}).get("h")
            return "%s.m" % op["root"] if "root" in op else None

        def body():
            for j, op in enumerate(ops):
                b.next_obj[c], b.next_kind[c] = obj_of(op), op["op"]
                b.begin_op(c, op.get("id", "c%d#%d" % (c, j)))
                b.yield_point(c, "op", is_op=True)
                b.next_obj[c] = obj_of(ops[j + 1]) if j + 1 < len(ops) else None
                b.next_kind[c] = ops[j + 1]["op"] if j + 1 < len(ops) else None
                ex.do("c%d" % c, j, op, b, c)
        return body

    try:
        b.run_clients([mk(c) for c in range(n)])
    finally:
        b.uninstall()
    for j, op in enumerate(plan["teardown"]):
        ex.do("teardown", j, op)
    for r in sorted(plan["roots"]):
        ex.rec("teardown", -1, ex.q(r, [], op="node"), libapi.canon_node(ex.wallets[r].master))
    users = ex.stats.pop("handle_users")
    shared = sum(1 for h, s in users.items() if len([u for u in s if u.startswith("c")]) >= 2)
    reused = sum(1 for h, s in users.items() if s)
    switches = [e for e in b.log if e[0] == "s"]
    stats = {
        "ops": ex.stats["ops"], "ops_total": sum(ex.stats["ops"].values()), "skipped_ops": ex.skipped,
        "scheduler_steps": b.E, "line_or_opcode_events": b.line_events, "switches": len(switches),
        "handles_used_by_2plus_clients": shared, "step_cap_hit": int(b.cap_hit),
        "probes": dict(b.probes), "pairs": sorted(b.pairs),
        "gen_resumed_after_foreign_derivation": ex.stats.get("gen_resumed_after_foreign_derivation", 0),
        "orphans": ex.stats.get("orphans", 0), "collector_runs": ex.stats.get("collector_runs", 0),
        "collected_objects": ex.stats.get("collected_objects", 0),
        "config": {cfg["config"]: 1}, "granularity": {cfg["granularity"]: 1},
        "policy": {plan["sched"].get("policy", "literal"): 1},
        "interleaving": [core.digest(b.switch_sites)] if switches else [],
        "switch_sites": sorted(set(s.split("@")[1] for s in b.switch_sites)),
    }
    return {"records": ex.records, "log": b.log, "stats": stats, "errors": b.errors,
            "shared": shared, "n_switches": len(switches)}


# =========================================================================== simulator
class ThreadsSim(Simulator):
    props = ("C13",)

    def selftest(self, prop):
        from sim.ref import bip32 as rb
        rb.selftest()
        # seam liveness: pre-emption points must be delivered while library code runs in client threads
        plan = gen_plan(12345, "quick", 1)
        plan["sched"] = {"mode": "seeded", "policy": "bernoulli", "p": 0.3, "p_op": 0.5, "sched_seed": 1}
        out = _run_child(plan)
        if out["stats"]["line_or_opcode_events"] < 50 or out["stats"]["switches"] < 1:
            raise core.HarnessError("scheduler seam dead: %d events, %d switches"
                                    % (out["stats"]["line_or_opcode_events"], out["stats"]["switches"]))
        # the root catalogue (built with the reference model) must be accepted by the library
        for r, spec in libapi.ROOTS.items():
            libapi.build_wallet(spec)
        return {"tracer_events_probe": out["stats"]["line_or_opcode_events"]}

    def generate(self, prop, seed, tier, idx):
        return gen_plan(seed, tier, idx)

    def isolated(self, query):
        """Answer of the isolated oracle for `query`: evaluated by the library on fresh objects in a freshly
        forked child of this (history-free) zygote. Memoised in the worker and, within one check invocation,
        shared between workers through a scratch directory: an isolated answer is history-free by definition,
        so sharing it cannot change a verdict, only save the fork."""
        key = core.canon_json(query)
        if key in _ISO_MEMO:
            return _ISO_MEMO[key], True
        cdir = os.environ.get("VERIF_ISO_CACHE")
        path = None
        if cdir:
            import hashlib
            import json
            h = hashlib.sha256(key.encode()).hexdigest()
            path = os.path.join(cdir, h[:2], h + ".json")
            try:
                with open(path) as f:
                    res = json.load(f)["a"]
                _ISO_MEMO[key] = res
                return res, True
            except (OSError, ValueError):
                pass
        st, res = core.fork_call(libapi.eval_isolated, (query,), timeout=120)
        if st != "ok":
            raise core.HarnessError("isolated oracle failed: %s %s" % (st, res))
        _ISO_MEMO[key] = res
        if path:
            try:
                os.makedirs(os.path.dirname(path), exist_ok=True)
                tmp = "%s.%d.tmp" % (path, os.getpid())
                with open(tmp, "w") as f:
                    f.write(core.canon_json({"a": res}))
                os.replace(tmp, path)
            except OSError:
                pass
        return res, False

    def run(self, prop, plan):
        st, out = core.fork_call(_run_child, (plan,), timeout=400)
        if st != "ok":
            return {"trace": plan, "violations": [], "stats": {}, "digest": None,
                    "harness_error": "run child %s: %s" % (st, out)}
        trace = dict(plan)
        trace["sched"] = {"mode": "literal", "log": [e[:4] for e in out["log"]]}   # drop from/site
        if out["errors"]:
            return {"trace": trace, "violations": [], "stats": out["stats"], "digest": None,
                    "harness_error": "client thread error: %s" % out["errors"][0]}
        violations = []
        iso_forks = 0
        iso_hits = 0
        multi = len(plan["clients"]) > 1
        seen = set()
        for r in out["records"]:
            exp, hit = self.isolated(r["q"])
            iso_hits += int(hit)
            iso_forks += int(not hit)
            if exp != r["obs"]:
                qop = r["q"]["op"]
                fam = {"gen_item": "generator", "bip85": "bip85", "paper": "paper"}.get(qop, "derivation")
                cls = "C13/mismatch/%s" % fam
                if cls in seen:
                    continue
                seen.add(cls)
                violations.append({
                    "class": cls,
                    "signature": {"clause": "result depends on history/schedule", "op": qop,
                                  "clients": len(plan["clients"])},
                    "detail": {"who": r["who"], "op_index": r["j"], "query": {k: v for k, v in r["q"].items() if k != "root"},
                               "observed": r["obs"], "isolated": exp,
                               "kind": "schedule- or history-dependence (multi-client run)" if multi
                               else "history-dependence (single client)"}})
        stats = out["stats"]
        stats["observations"] = len(out["records"])
        stats["isolated_oracle_forks"] = iso_forks
        stats["isolated_oracle_memo_hits"] = iso_hits
        dg = core.digest({"records": out["records"], "log": [e[:4] for e in out["log"]]})
        nontrivial = (out["n_switches"] >= 1 and out["shared"] >= 1) or \
                     (not multi and stats["ops_total"] >= 4)
        sample = {"config": plan["config"], "roots": sorted(plan["roots"]), "setup": plan["setup"],
                  "clients": plan["clients"], "schedule_log_head": [e for e in out["log"][:12]],
                  "switches": out["n_switches"]}
        return {"trace": trace, "violations": violations, "stats": stats, "digest": dg,
                "nontrivial": bool(nontrivial), "harness_error": None, "sample": sample}

    # ----------------------------------------------------------------------- shrinking
    def size(self, prop, plan):
        return sum(len(c) for c in plan["clients"]) + len(plan["setup"]) + len(plan["teardown"]) + \
            len([e for e in plan["sched"].get("log", []) if e[0] == "s"])

    def shrink(self, prop, plan):
        def with_(**kw):
            p = dict(plan)
            p.update(kw)
            return p
        clients = plan["clients"]
        log = plan["sched"].get("log", [])
        # 1. drop whole clients (schedule entries that mention missing clients are ignored in literal mode;
        #    client ids shift, so drop the schedule for those candidates and keep literal first-runnable order)
        if len(clients) > 1:
            for c in range(len(clients)):
                rest = clients[:c] + clients[c + 1:]
                remap = {}
                k = 0
                for i in range(len(clients)):
                    if i != c:
                        remap[i] = k
                        k += 1
                nlog = []
                for e in log:
                    if e[0] == "start" and e[1] in remap:
                        nlog.append(["start", remap[e[1]]])
                    elif e[0] == "s" and e[3] in remap:
                        nlog.append(["s", e[1], e[2], remap[e[3]]])
                    elif e[0] == "f" and e[1] in remap and e[2] in remap:
                        nlog.append(["f", remap[e[1]], remap[e[2]]])
                yield with_(clients=rest, sched={"mode": "literal", "log": nlog})
        # 2. drop teardown / setup ops
        if plan["teardown"]:
            yield with_(teardown=[])
        for cand in chunked_drops(plan["setup"]):
            yield with_(setup=cand)
        # 3. drop ops per client (event numbers shift: also try with an empty schedule => run-to-completion)
        for c in range(len(clients)):
            for cand in chunked_drops(clients[c]):
                nc = list(clients)
                nc[c] = cand
                yield with_(clients=nc)
        # 4. fewer context switches
        sw = [e for e in log if e[0] == "s"]
        other = [e for e in log if e[0] != "s"]
        if sw:
            def mk(keep):
                return with_(sched={"mode": "literal", "log": other + keep})
            if len(sw) > 2:
                for k in range(len(sw)):           # a race window usually needs one or two hand-overs
                    yield mk([sw[k]])
                for k in range(len(sw) - 1):
                    yield mk([sw[k], sw[k + 1]])
            for cand in chunked_drops(sw):
                yield mk(cand)
        # 5. fewer roots (only those not referenced)
        used = set()
        for op in plan["setup"] + plan["teardown"] + [o for c in clients for o in c]:
            if "root" in op:
                used.add(op["root"])
            for k in ("h",):
                if k in op:
                    used.add(op[k].split(".")[0])
        for c in clients:
            for o in c:
                if "g" in o:
                    pass
        unused = [r for r in plan["roots"] if r not in used and not any(
            (o.get("h") or "").startswith("c") for cl in clients for o in cl)]
        for r in unused:
            if len(plan["roots"]) > 1:
                yield with_(roots={k: v for k, v in plan["roots"].items() if k != r})
        # 6. simplify arguments
        for c in range(len(clients)):
            for j, op in enumerate(clients[c]):
                for key, simple in (("i", 0), ("k", 1)):
                    if key in op and op[key] != simple and not (key == "i" and op[key] >= HARD):
                        nop = dict(op)
                        nop[key] = simple
                        nc = [list(x) for x in clients]
                        nc[c][j] = nop
                        yield with_(clients=nc)

    # ----------------------------------------------------------------------- reporting
    def secondary_backends(self, prop, tier):
        return [] if tier == "quick" else [("stub", None, 150), ("ecdsa-O", None, 60)]

    def quick_runs(self, prop):
        return int(os.environ.get("VERIF_C13_RUNS", "720"))

    def thorough_seconds(self, prop):
        return int(os.environ.get("VERIF_C13_SECONDS", "900"))

    def rule(self, prop):
        return ("one run = seeded workload (2-4 roots out of ten: full wallets, watch-only and PRIVATE extended-key imports "
                "of nodes that are also derived nodes of another root; setup ops; 1-4 client threads with 3-40 API calls "
                "on shared wallet/node/generator objects incl. new wallet objects built mid-history; teardown "
                "re-observation) executed under the baton scheduler with a seeded pre-emption policy (Bernoulli, "
                "conflict-biased, sparse, site-uniform and publication-site atomicity tests, operation-granular, or none for the single-client "
                "history batch) at line or instruction granularity; every observation is compared with the same request "
                "on fresh objects in a freshly forked history-free child. A run is non-trivial if at least one context switch happened and "
                "at least one handle was used by two clients (multi-client), or >=4 operations shared objects "
                "(single client); distinct = distinct digest over all (query, observation) records and the schedule log.")

    def coverage_extra(self, prop, st):
        return {
            "simulated_time": "no timers in this code base: logical time is reported as scheduler steps "
                              "(pre-emption points): %d" % st.get("scheduler_steps", 0),
            "fault_kinds_fired": {
                "context_switch_at_line_or_opcode": st.get("switches", 0),
                "preempted_inside_ckd": st.get("probes", {}).get("preempted_inside_ckd", 0),
                "two_clients_inside_ckd_of_same_parent":
                    st.get("probes", {}).get("two_clients_inside_ckd_of_same_parent", 0),
                "history_before_request(ops)": st.get("ops_total", 0),
                "node_outlives_its_wallet_and_ancestors": st.get("orphans", 0),
                "cyclic_collector_run_at_seeded_point": st.get("collector_runs", 0),
                "objects_freed_by_those_collector_runs": st.get("collected_objects", 0),
            },
            "distinct_interleavings": st.get("interleaving#distinct", 0),
            "distinct_op_pairs_overlapped": st.get("pairs#distinct", 0),
            "distinct_switch_sites": st.get("switch_sites#distinct", 0),
        }

    def reach_failures(self, prop, st, tier):
        # Only harness-level facts are fatal. Probes that name implementation details (a function called
        # `ckd`, a `children` list) are reported in evidence but never fail the check: a refactor that
        # renames them must not turn a holding property into a broken check.
        out = []
        pr = st.get("probes", {})
        if pr.get("switch_between_ops_on_same_handle", 0) == 0:
            out.append("no context switch ever separated two operations on the same handle")
        if st.get("switches", 0) == 0:
            out.append("no context switch at all")
        if st.get("gen_resumed_after_foreign_derivation", 0) == 0:
            out.append("no generator was resumed after a foreign derivation on its node")
        if st.get("orphans", 0) == 0 or st.get("collector_runs", 0) == 0:
            out.append("no node outlived its wallet / the collector never ran at a seeded point")
        return out

    def real_components(self, prop):
        return ["btc_hd_wallet (all modules, unmodified, from the working tree)", "ecdsa package",
                "CPython threads (threading.Thread)", "hashlib / PBKDF2", "json"]

    def stub_components(self, prop):
        return ["thread choice: baton scheduler decides at every sys.monitoring LINE/INSTRUCTION event in the package's "
                "own code objects which thread runs next (real threads, parked and released one at a time)",
                "threading.Lock / RLock created by the library: scheduler-aware SimLock (a blocked client hands the baton on)",
                "oracle process: fresh fork of the zygote per distinct query"]

    def assumptions(self, prop):
        return ["pre-emption only at line/opcode events inside btc_hd_wallet's own files (never inside ecdsa, hashlib, json)",
                "ecdsa fallback back end (libsecp256k1 absent in this sandbox)",
                "the isolated oracle is the library itself on fresh objects: functional bugs that are history-independent "
                "are out of scope of C13 by construction",
                "sampled schedules, not enumerated"]


SIM = ThreadsSim()
