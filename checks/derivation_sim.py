"""S3 / C18 + C01 -- the derivation simulator with a fault-injected PRF.

The library derives keys while every HMAC-SHA512 call goes through the PRF seam;
a seeded fault plan replaces chosen outputs by algebraic corner values.  An
executable reference model of BIP32 (harness code) is fed the same outputs in
lock-step and says, per call, what the spec layout of (key, msg) is, whether
the output makes the child invalid, and what the child must be.

  ./check C01  plants only VALID corners and judges equality with the model;
  ./check C18  plants INVALID outputs and judges only "raised vs returned".
See DESIGN.md section 5.
"""
import os
import random

from sim import core
from sim.base import Simulator, chunked_drops
from sim.ref import bip32 as rb
from sim.ref import secp
from sim.ref.codecs import hmac_sha512 as ref_hmac

HARD = 2 ** 31
N = secp.N
IDX = [0, 1, HARD - 1, HARD, HARD + 1, 2 ** 32 - 1]

INVALID_KINDS = {
    "master": ["IL=0", "IL=n", "IL=n+1", "IL=2^256-1", "IL=n+r"],
    "prv": ["IL=n", "IL=n+1", "IL=2^256-1", "IL=n-kpar", "IL=n+r"],
    "pub": ["IL=n", "IL=n+1", "IL=2^256-1", "IL=n-kpar", "IL=n+r"],
    "bip85": ["S=0", "S=n", "S=2^256-1", "S=n+r"],
}
VALID_KINDS = {
    "master": ["IL=1", "IL=n-1", "IL=lz", "IR=00", "IR=ff"],
    "prv": ["IL=0", "IL=1", "IL=n-1", "child=n-1", "child=1", "child=lz", "IL=kpar", "IR=00", "IR=ff"],
    "pub": ["IL=1", "IL=n-1", "IL=kpar", "IR=00", "IR=ff"],
    "bip85": ["S=1", "S=n-1", "S=lz"],
}
MASTER_VIAS = ["master_key", "master_key", "from_bip39_seed_hex", "from_bip39_seed_bytes", "paper_from_seed_hex"]
SCALAR_CLASSES = ["one", "two", "n-1", "n-2", "pow2", "lz", "trail0", "hi80", "midzero", "random"]


def gen_scalar(rng, cls):
    if cls == "one":
        return 1
    if cls == "two":
        return 2
    if cls == "n-1":
        return N - 1
    if cls == "n-2":
        return N - 2
    if cls == "pow2":
        return 1 << rng.randrange(1, 256)
    if cls == "lz":
        z = rng.randrange(1, 32)
        return rng.randrange(1, 1 << (8 * (32 - z)))
    if cls == "trail0":
        z = rng.randrange(1, 16)
        return (rng.randrange(1, 1 << (8 * (32 - z))) << (8 * z)) % N or 1
    if cls == "hi80":
        return (0x80 << 248) | rng.getrandbits(248)
    if cls == "midzero":
        b = bytearray(rng.randbytes(32))
        b[0] = (b[0] & 0x7f) | 1
        for i_ in rng.sample(range(1, 31), rng.randint(1, 6)):
            b[i_] = 0
        return int.from_bytes(bytes(b), "big") % N or 1
    return rng.randrange(1, N)


def planted_output(kind, real, kpar, aux):
    """The 64-byte output the stub returns for fault `kind` (kpar: parent scalar or None)."""
    il, ir = real[:32], real[32:]

    def b32(v):
        return (v % (1 << 256)).to_bytes(32, "big")
    if kind in ("IL=0", "S=0"):
        il = b32(0)
    elif kind in ("IL=1", "S=1"):
        il = b32(1)
    elif kind in ("IL=n", "S=n"):
        il = b32(N)
    elif kind == "IL=n+1":
        il = b32(N + 1)
    elif kind in ("IL=n+r", "S=n+r"):
        # somewhere else in [n, 2^256): low band n + r (r < 2^32) or anywhere above n, chosen by aux
        span = (1 << 256) - N
        il = b32(N + (aux % (1 << 32) if aux % 2 else aux % span))
    elif kind in ("IL=2^256-1", "S=2^256-1"):
        il = b"\xff" * 32
    elif kind in ("IL=n-1", "S=n-1"):
        il = b32(N - 1)
    elif kind == "IL=n-kpar":
        il = b32(N - kpar)
    elif kind == "IL=kpar":
        il = b32(kpar)
    elif kind == "child=n-1":
        il = b32((N - 1 - kpar) % N)
    elif kind == "child=1":
        il = b32((1 - kpar) % N)
    elif kind == "child=lz":
        il = b32((aux - kpar) % N)
    elif kind in ("IL=lz", "S=lz"):
        il = b32(aux)
    elif kind == "IR=00":
        ir = b"\x00" * 32
    elif kind == "IR=ff":
        ir = b"\xff" * 32
    else:
        raise core.HarnessError("unknown PRF kind %r" % kind)
    return il + ir


# =========================================================================== plan generation
def _levels_for(op):
    if op["op"] in ("ckd", "pub_ckd"):
        return [op["i"]]
    if op["op"] in ("derive_path", "pub_derive_path", "by_path"):
        return list(op["il"])
    if op["op"] == "bip85_wif":
        return [83696968 + HARD, 2 + HARD, op["i"] + HARD]
    if op["op"] == "bip85_xprv":
        return [83696968 + HARD, 32 + HARD, op["i"] + HARD]
    if op["op"] == "bip85_mnemonic":
        return [83696968 + HARD, 39 + HARD, HARD, op["a"] + HARD, op["i"] + HARD]
    if op["op"] == "bip85_hex":
        return [83696968 + HARD, 128169 + HARD, op["a"] + HARD, op["i"] + HARD]
    if op["op"] == "bip85_pwd":
        return [83696968 + HARD, 707764 + HARD, op["a"] + HARD, op["i"] + HARD]
    if op["op"] in ("generate_children", "addr_gen", "pub_generate_children", "pub_addr_gen"):
        return list(op["il"])          # SIBLINGS of one parent, not a chain
    return []


SIBLING_OPS = ("generate_children", "addr_gen", "pub_generate_children", "pub_addr_gen")
BIP85_FREE = ("bip85_mnemonic", "bip85_hex", "bip85_pwd")   # final HMAC output has no validity constraint


def site_of(op, ordinal):
    k = op["op"]
    lv = _levels_for(op)
    if k == "master":
        return "master"
    if k in ("bip85_wif", "bip85_xprv") and ordinal == len(lv):
        return k.replace("_", "-")
    if k.startswith("pub"):
        return "pub-normal"
    return "prv-hardened" if lv[ordinal] >= HARD else "prv-normal"


def kind_family(site):
    if site == "master":
        return "master"
    if site.startswith("bip85"):
        return "bip85"
    if site.startswith("pub"):
        return "pub"
    return "prv"


def position_of(op, ordinal):
    n = len(_levels_for(op)) + (1 if op["op"] in ("bip85_wif", "bip85_xprv") else 0)
    if op["op"] == "master" or n == 1:
        return "only"
    if ordinal == 0:
        return "first"
    if ordinal == n - 1:
        return "last"
    return "middle"


def enumerate_cells(invalid):
    """All (site, kind, position) cells of the fault matrix, deterministic order."""
    kinds = INVALID_KINDS if invalid else VALID_KINDS
    cells = []
    for k in kinds["master"]:
        cells.append(("master", k, "only"))
    for site in ("prv-normal", "prv-hardened"):
        for k in kinds["prv"]:
            for pos in ("only", "first", "middle", "last"):
                cells.append((site, k, pos))
    for k in kinds["pub"]:
        for pos in ("only", "first", "middle", "last"):
            cells.append(("pub-normal", k, pos))
    for site in ("bip85-wif", "bip85-xprv"):
        for k in kinds["bip85"]:
            cells.append((site, k, "last"))
    return cells


def _rand_index(rng, hardened=None):
    band = rng.choice([1 << 8, 1 << 16, 1 << 24, (1 << 16) - 1, 1000, 65537, 0x00FF00FF & (HARD - 1)])
    if hardened is True:
        return rng.choice([HARD, HARD + 1, 2 ** 32 - 1, HARD + rng.randrange(HARD), HARD + band])
    if hardened is False:
        return rng.choice([0, 1, HARD - 1, rng.randrange(HARD), band])
    return rng.choice(IDX + [rng.randrange(2 ** 32), band, HARD + band])


def _op_for_cell(rng, cell, out, bulk=False):
    site, kind, pos = cell
    aux = gen_scalar(rng, "lz")
    if site == "master":
        return {"op": "master", "seed_hex": rng.randbytes(rng.choice([16, 32, 64])).hex(), "testnet": rng.random() < 0.5,
                "via": rng.choice(MASTER_VIAS), "out": out, "faults": {"0": [kind, aux]}}
    if site.startswith("bip85"):
        op = {"op": site.replace("-", "_"), "h": "r", "i": rng.choice([0, 1, 2, HARD - 1])}
        op["faults"] = {"3": [kind, aux]}
        return op
    n = {"only": 1, "first": rng.randint(2, 4), "middle": rng.randint(3, 5), "last": rng.randint(2, 4)}[pos]
    at = {"only": 0, "first": 0, "middle": rng.randint(1, n - 2) if n > 2 else 0, "last": n - 1}[pos]
    pub = site == "pub-normal"
    il = []
    for j in range(n):
        if j == at:
            il.append(_rand_index(rng, hardened=(site == "prv-hardened")))
        else:
            il.append(_rand_index(rng, hardened=False if pub else None))
    if n == 1 and bulk and il[0] + 1 < 2 ** 32 and (il[0] + 1 < HARD or il[0] >= HARD) and not (pub and il[0] + 1 >= HARD):
        # the same single faulty derivation reached through the bulk route: generate_children over [i, i+2) or
        # [i-1, i+1), fault on the first or second sibling
        second = rng.random() < 0.5 and il[0] >= 1 and il[0] != HARD
        a_ = il[0] - 1 if second else il[0]
        return {"op": ("pub_" if pub else "") + "generate_children", "h": "r", "il": [a_, a_ + 1],
                "faults": {str(1 if second else 0): [kind, aux]}}
    if n == 1:
        op = {"op": "pub_ckd" if pub else "ckd", "h": "r", "i": il[0], "out": out}
    else:
        op = {"op": "pub_derive_path" if pub else rng.choice(["derive_path", "by_path"]), "h": "r", "il": il, "out": out}
        if op["op"] == "by_path" and len(il) > 5:
            op["op"] = "derive_path"
    op["faults"] = {str(at): [kind, aux]}
    return op


def gen_root(rng):
    if rng.random() < 0.35:
        return {"kind": "seed", "seed_hex": rng.randbytes(rng.choice([16, 20, 32, 64, rng.randint(12, 64)])).hex(),
                "testnet": rng.random() < 0.3}
    cls = rng.choice(SCALAR_CLASSES)
    testnet = rng.random() < 0.3
    return {"kind": "xprv", "scalar_class": cls, "k": "%064x" % gen_scalar(rng, cls),
            "depth": rng.choice([0, 1, 3, 127, 128, 250, 254, rng.randrange(255)]),
            "pfp": rng.randbytes(4).hex(), "index": _rand_index(rng),
            "chain": rng.choice([rng.randbytes(32), rng.randbytes(32), b"\x00" * 32, b"\xff" * 32,
                                 b"\x00" * 4 + rng.randbytes(28), rng.randbytes(28) + b"\x00" * 4]).hex(),
            "testnet": testnet}


def gen_plan(prop, seed, tier, idx):
    rng = random.Random(seed)
    invalid = prop == "C18"
    cells = enumerate_cells(invalid)
    root = gen_root(rng)
    ops = []
    config = "planted"
    if idx < 2 * len(cells):
        # systematic part: every cell of the fault matrix gets its own runs
        cell = cells[idx % len(cells)]
        pre = rng.randint(0, 2)
        if root.get("depth", 0) > 250:
            root["depth"] = 250          # the cell's operation (<= 5 levels) must fit below depth 255
    else:
        cell = None
        pre = rng.randint(2, 8)
        if prop == "C01" and idx % 3 == 0:
            config = "fault_free"
    kinds = INVALID_KINDS if invalid else VALID_KINDS
    rdepth = root.get("depth", 0)
    handles = ["r"]
    hdepth = {"r": rdepth}

    def fit(op):
        """Keep every derived node within BIP32's one-byte depth (parents 0..254)."""
        if "h" not in op:
            return op
        lv = 1 if op["op"] in SIBLING_OPS else len(_levels_for(op))
        if hdepth[op["h"]] + lv > 255:
            ok = [h for h in handles if hdepth[h] + lv <= 255]
            if ok:
                op["h"] = rng.choice(ok)
            else:
                op["h"] = "r"
                if "il" in op:
                    keep = max(1, 255 - rdepth)
                    drop = len(op["il"]) - keep
                    op["il"] = op["il"][:keep]
                    op["faults"] = {k: v for k, v in op.get("faults", {}).items() if int(k) < keep}
                elif op["op"].startswith("bip85"):
                    op.clear()
                    op.update({"op": "ckd", "h": "r", "i": HARD, "out": "fit", "faults": {}})
        return op

    for j in range(pre):
        out = "o%d" % j
        x = rng.random()
        h = rng.choice(handles)
        if x < 0.25:
            op = {"op": "ckd", "h": h, "i": _rand_index(rng), "out": out}
        elif x < 0.55:
            op = {"op": rng.choice(["derive_path", "by_path"]), "h": h,
                  "il": [_rand_index(rng) for _ in range(rng.randint(1, 5) if rng.random() < 0.85 else
                                                        rng.randint(6, 9) if rng.random() < 0.8 else rng.randint(10, 14))],
                  "out": out}
            if len(op["il"]) > 5:
                op["op"] = "derive_path"       # by_path strings are honoured for five levels only (C17)
        elif x < 0.65:
            op = {"op": "pub_ckd", "h": h, "i": _rand_index(rng, hardened=False), "out": out}
        elif x < 0.75:
            op = {"op": "pub_derive_path", "h": h,
                  "il": [_rand_index(rng, hardened=False) for _ in range(rng.randint(1, 4))], "out": out}
        elif x < 0.80:
            op = {"op": rng.choice(["bip85_wif", "bip85_xprv"]), "h": h, "i": rng.choice([0, 1, 7, HARD - 1])}
        elif x < 0.84:
            app = rng.choice(["bip85_mnemonic", "bip85_hex", "bip85_pwd"])
            op = {"op": app, "h": h, "i": rng.choice([0, 1, 7]),
                  "a": {"bip85_mnemonic": rng.choice([12, 18, 24]), "bip85_hex": rng.choice([16, 32, 64]),
                        "bip85_pwd": rng.choice([20, 21, 86])}[app]}
        elif x < 0.88:
            a_ = rng.choice([0, 5, HARD - 2, HARD - 1, HARD - 3, HARD, 2 ** 32 - 3])
            op = {"op": "generate_children", "h": h, "il": list(range(a_, a_ + rng.choice([1, 2, 2, 3, 4])))}
            if op["il"][-1] >= 2 ** 32:                 # (intervals may straddle the hardened boundary 2^31)
                op["il"] = [0, 1]
            if op["il"][-1] < HARD and rng.random() < 0.4:
                op["op"] = "pub_generate_children"      # the watch-only side of the same bulk route
        elif x < 0.90:
            op = {"op": rng.choice(["addr_gen", "addr_gen", "pub_addr_gen"]), "h": h, "il": [0, 1][:rng.randint(1, 2)]}
        else:
            op = {"op": "master", "seed_hex": rng.randbytes(rng.choice([16, 32, 64])).hex(),
                  "testnet": rng.random() < 0.5, "via": rng.choice(MASTER_VIAS), "out": out}
        op["faults"] = {}
        op = fit(op)
        if op["op"] in ("ckd", "derive_path", "by_path") and rng.random() < 0.3:
            op["temp_parent"] = True
        if config == "planted" and cell is None and rng.random() < 0.5:
            n_calls = len(_levels_for(op)) + (1 if op["op"] in ("bip85_wif", "bip85_xprv") else 0) + (1 if op["op"] == "master" else 0)
            o = rng.randrange(n_calls)
            fam = kind_family(site_of(op, o))
            op["faults"][str(o)] = [rng.choice(kinds[fam]), gen_scalar(rng, "lz")]
        if "out" in op and not op["op"].startswith("pub") and not (invalid and op["faults"]) and not op.get("temp_parent"):
            handles.append(op["out"])
            hdepth[op["out"]] = 0 if op["op"] == "master" else hdepth[op["h"]] + len(_levels_for(op))
        if op["op"] in SIBLING_OPS:
            op.pop("out", None)
        ops.append(op)
    if cell is not None:
        op = _op_for_cell(rng, cell, "cell", bulk=(idx >= len(cells) and rng.random() < 0.5))
        if "h" in op:
            lv = 1 if op["op"] in SIBLING_OPS else len(_levels_for(op))
            ok = [h for h in handles if hdepth[h] + lv <= 255]
            op["h"] = rng.choice(ok) if ok else "r"
        ops.append(op)
    if invalid and not any(o["faults"] for o in ops):
        op = _op_for_cell(rng, rng.choice(cells), "x")
        if "h" in op:
            lv = len(_levels_for(op))
            ok = [h for h in handles if hdepth[h] + lv <= 255]
            op["h"] = rng.choice(ok) if ok else "r"
        ops.append(op)
    return {"property": prop, "seed": seed, "config": {"config": config, "cell": list(cell) if cell else None},
            "root": root, "ops": ops}


# =========================================================================== execution
def _ref_root(root):
    if root["kind"] == "seed":
        return rb.master(bytes.fromhex(root["seed_hex"]), testnet=root["testnet"])
    k = int(root["k"], 16)
    return rb.RefNode(k, secp.mul_g(k), bytes.fromhex(root["chain"]), root["depth"], root["index"],
                      bytes.fromhex(root["pfp"]), root["testnet"])


def _sut_root(root, ref):
    from btc_hd_wallet.bip32 import PrvKeyNode
    if root["kind"] == "seed":
        return PrvKeyNode.master_key(bip39_seed=bytes.fromhex(root["seed_hex"]), testnet=root["testnet"])
    return PrvKeyNode.parse(ref.xprv(), testnet=root["testnet"])


def _canon(n, prv=True):
    d = {"chain_code": bytes(n.chain_code).hex(), "depth": n.depth, "index": n.index,
         "pfp": bytes(n.parent_fingerprint).hex(), "xpub": n.extended_public_key(),
         "ser_pub": bytes(n.serialize_public()).hex()}
    if prv:
        d["key"] = bytes(n.private_key).hex()
        d["xprv"] = n.extended_private_key()
        d["ser_prv"] = bytes(n.serialize_private()).hex()
        d["eq_reparsed"] = bool(n == type(n).parse(d["xprv"], testnet=n.testnet))
    else:
        d["key"] = bytes(n.key).hex()
        d["eq_reparsed"] = bool(n == type(n).parse(d["xpub"], testnet=n.testnet))
    return d


def _ref_canon(r, prv=True):
    from sim.ref.codecs import b58check_decode
    d = {"chain_code": r.c.hex(), "depth": r.depth, "index": r.index, "pfp": r.pfp.hex(), "xpub": r.xpub(),
         "ser_pub": b58check_decode(r.xpub()).hex(), "eq_reparsed": True}
    if prv:
        d["key"] = "%064x" % r.k
        d["xprv"] = r.xprv()
        d["ser_prv"] = b58check_decode(r.xprv()).hex()
    else:
        d["key"] = r.sec.hex()
    return d


class _Lockstep:
    """PRF handler for one operation: advances the reference model call by call."""

    def __init__(self, op, parent_ref, pub):
        self.op = op
        self.pub = pub
        self.levels = _levels_for(op)
        self.cur = parent_ref           # reference parent for the next derivation call (None = dead)
        self.ordinal = 0
        self.calls = []                 # per call: dict(site, kind, layout_ok, valid, reason)
        self.invalid_at = None
        self.refs = []                  # reference children level by level
        self.final = None               # bip85 final entropy (planted)
        self.layout_bad = []

    def __call__(self, key, msg, real_from_lib_args):
        o = self.ordinal
        self.ordinal += 1
        op = self.op
        fault = op.get("faults", {}).get(str(o))
        rec = {"ordinal": o, "fault": fault[0] if fault else None}
        # ---- master
        if op["op"] == "master":
            rec["site"] = "master"
            exp_key, exp_msg = b"Bitcoin seed", bytes.fromhex(op["seed_hex"])
            real = ref_hmac(exp_key, exp_msg)
            outp = planted_output(fault[0], real, None, fault[1]) if fault else real
            rec["layout_ok"] = (key == exp_key and msg == exp_msg)
            il = int.from_bytes(outp[:32], "big")
            if il == 0 or il >= N:
                self.invalid_at = (o, "master IL==0" if il == 0 else "master IL>=n")
                self.cur = None
            else:
                self.cur = rb.RefNode(il, secp.mul_g(il), outp[32:], testnet=op.get("testnet", False))
                self.refs.append(self.cur)
            self.calls.append(rec)
            return outp
        # ---- derivation levels
        if o < len(self.levels):
            i = self.levels[o]
            rec["site"] = site_of(op, o)
            if self.cur is None:
                rec["dead"] = True              # the model already declared the path invalid
                self.calls.append(rec)
                return real_from_lib_args
            par = self.cur
            exp_key = par.c
            if self.pub or i < HARD:
                exp_msg = par.sec + i.to_bytes(4, "big")
            else:
                exp_msg = b"\x00" + par.k.to_bytes(32, "big") + i.to_bytes(4, "big")
            real = ref_hmac(exp_key, exp_msg)
            outp = planted_output(fault[0], real, par.k, fault[1]) if fault else real
            rec["layout_ok"] = (key == exp_key and msg == exp_msg)
            if not rec["layout_ok"]:
                self.layout_bad.append({"ordinal": o, "index": i, "key": key.hex(), "msg": msg.hex(),
                                        "want_key": exp_key.hex(), "want_msg": exp_msg.hex()})
            sibling = op["op"] in SIBLING_OPS
            try:
                if self.pub:
                    child = rb.ckd_pub(par.neuter(), i, prf=lambda k_, m_: outp)
                    child.k = None
                    if par.k is not None:       # keep the scalar for later IL=n-kpar faults
                        child_k = (int.from_bytes(outp[:32], "big") + par.k) % N
                        child = rb.RefNode(child_k, child.K, child.c, child.depth, child.index, child.pfp,
                                           child.testnet)
                else:
                    child = rb.ckd_priv(par, i, prf=lambda k_, m_: outp)
                self.cur = par if sibling else child
                self.refs.append(child)
            except rb.Invalid as e:
                self.invalid_at = (o, str(e))
                self.cur = None
            self.calls.append(rec)
            return outp
        # ---- BIP85 final HMAC of applications whose output is not a key: nothing to plant, nothing to judge
        if op["op"] in BIP85_FREE and o == len(self.levels):
            rec["site"] = "bip85-free"
            self.calls.append(rec)
            return real_from_lib_args
        # ---- BIP85 final HMAC
        if op["op"].startswith("bip85") and o == len(self.levels):
            rec["site"] = op["op"].replace("_", "-")
            if self.cur is None:
                rec["dead"] = True
                self.calls.append(rec)
                return real_from_lib_args
            exp_key, exp_msg = b"bip-entropy-from-k", self.cur.k.to_bytes(32, "big")
            real = ref_hmac(exp_key, exp_msg)
            rec["layout_ok"] = (key == exp_key and msg == exp_msg)
            outp = real
            if fault:
                if op["op"] == "bip85_wif":
                    outp = planted_output(fault[0].replace("S=", "IL="), real, None, fault[1])
                else:   # xprv: the secret is the RIGHT half
                    sw = planted_output(fault[0].replace("S=", "IL="), real[32:] + real[:32], None, fault[1])
                    outp = sw[32:] + sw[:32]
            self.final = outp
            s = int.from_bytes(outp[:32] if op["op"] == "bip85_wif" else outp[32:], "big")
            if s == 0 or s >= N:
                self.invalid_at = (o, "bip85 secret==0" if s == 0 else "bip85 secret>=n")
            self.calls.append(rec)
            return outp
        rec["site"] = "unexpected"
        rec["unexpected"] = True
        self.calls.append(rec)
        return real_from_lib_args


def _run_child(plan):
    from sim.prf import PrfSeam
    from btc_hd_wallet.bip32 import PrvKeyNode, PubKeyNode
    from btc_hd_wallet.base_wallet import BaseWallet
    from btc_hd_wallet.bip85 import BIP85DeterministicEntropy
    prop = plan["property"]
    seam = PrfSeam()
    seam.install()
    root = plan["root"]
    ref_root = _ref_root(root)
    try:
        sut_root = _sut_root(root, ref_root)
    except Exception as e:
        raise core.HarnessError("library refused a valid root: %r" % e)
    handles = {"r": (sut_root, ref_root)}
    records = []
    cells = {}
    fired = {}
    for j, op in enumerate(plan["ops"]):
        kind = op["op"]
        pub = kind.startswith("pub")
        if kind != "master":
            if op["h"] not in handles:
                records.append({"j": j, "skipped": True})
                continue
            sut_par, ref_par = handles[op["h"]]
        else:
            sut_par, ref_par = None, None
        ls = _Lockstep(op, ref_par, pub)
        if op.get("temp_parent") and kind in ("ckd", "derive_path", "by_path") and ref_par is not None:
            # the caller works on a TEMPORARY parent (re-parsed from the parent's own extended key) and drops it:
            # results must not need the caller to keep the parent object alive
            import gc
            seam.handler = None
            tmp_par = PrvKeyNode.parse(ref_par.xprv(), testnet=ref_par.testnet)
            sut_par = tmp_par
            del tmp_par
        seam.handler = ls
        result = None
        exc = None
        try:
            if kind == "master":
                via = op.get("via", "master_key")
                if via == "master_key":
                    result = PrvKeyNode.master_key(bip39_seed=bytes.fromhex(op["seed_hex"]), testnet=op["testnet"])
                elif via == "from_bip39_seed_hex":
                    result = BaseWallet.from_bip39_seed_hex(bip39_seed=op["seed_hex"], testnet=op["testnet"]).master
                elif via == "from_bip39_seed_bytes":
                    result = BaseWallet.from_bip39_seed_bytes(bip39_seed=bytes.fromhex(op["seed_hex"]),
                                                              testnet=op["testnet"]).master
                else:
                    from btc_hd_wallet.paper_wallet import PaperWallet
                    result = PaperWallet.from_bip39_seed_hex(bip39_seed=op["seed_hex"], testnet=op["testnet"]).master
            elif kind == "ckd":
                result = sut_par.ckd(index=op["i"])
            elif kind == "derive_path":
                result = sut_par.derive_path(index_list=list(op["il"]))
            elif kind == "by_path":
                from checks.threads_sim import fmt_path
                w = BaseWallet(master=sut_par, testnet=ref_par.testnet)
                result = w.by_path(fmt_path(op["il"]))
            elif kind == "pub_ckd":
                seam.handler = None
                twin = PubKeyNode.parse(ref_par.xpub(), testnet=ref_par.testnet)
                seam.handler = ls
                result = twin.ckd(index=op["i"])
            elif kind == "pub_derive_path":
                seam.handler = None
                twin = PubKeyNode.parse(ref_par.xpub(), testnet=ref_par.testnet)
                seam.handler = ls
                result = twin.derive_path(index_list=list(op["il"]))
            elif kind == "bip85_wif":
                result = BIP85DeterministicEntropy(master_node=sut_par, testnet=ref_par.testnet).wif(index=op["i"])
            elif kind == "bip85_xprv":
                result = BIP85DeterministicEntropy(master_node=sut_par, testnet=ref_par.testnet).xprv(index=op["i"])
            elif kind == "bip85_mnemonic":
                result = BIP85DeterministicEntropy(master_node=sut_par, testnet=ref_par.testnet).bip39_mnemonic(
                    word_count=op["a"], index=op["i"])
            elif kind == "bip85_hex":
                result = BIP85DeterministicEntropy(master_node=sut_par, testnet=ref_par.testnet).hex(
                    num_bytes=op["a"], index=op["i"])
            elif kind == "bip85_pwd":
                result = BIP85DeterministicEntropy(master_node=sut_par, testnet=ref_par.testnet).pwd(
                    pwd_len=op["a"], index=op["i"])
            elif kind == "generate_children":
                result = sut_par.generate_children(interval=(op["il"][0], op["il"][-1] + 1))
            elif kind == "addr_gen":
                w = BaseWallet(master=sut_par, testnet=ref_par.testnet)
                g_ = w.address_generator(sut_par)
                result = [next(g_) for _ in op["il"]]
            elif kind in ("pub_generate_children", "pub_addr_gen"):
                seam.handler = None
                twin = PubKeyNode.parse(ref_par.xpub(), testnet=ref_par.testnet)
                seam.handler = ls
                if kind == "pub_generate_children":
                    result = twin.generate_children(interval=(op["il"][0], op["il"][-1] + 1))
                else:
                    w = BaseWallet(master=twin, testnet=ref_par.testnet)
                    g_ = w.address_generator(twin)
                    result = [next(g_) for _ in op["il"]]
            else:
                raise core.HarnessError("unknown op %r" % kind)
        except core.HarnessError:
            raise
        except Exception as e:
            exc = type(e).__name__
        finally:
            seam.handler = None
        if op.get("temp_parent"):
            import gc
            sut_par = None
            gc.collect()
        # ---- observe (no PRF substitution while observing)
        rec = {"j": j, "op": kind, "exc": exc, "calls": ls.calls, "invalid_at": ls.invalid_at,
               "layout_bad": ls.layout_bad}
        for c in ls.calls:
            if c.get("fault") and not c.get("dead"):
                cell = "%s|%s|%s" % (c["site"], c["fault"], position_of(op, c["ordinal"]))
                cells[cell] = cells.get(cell, 0) + 1
                fired[c["fault"]] = fired.get(c["fault"], 0) + 1
        if exc is None:
            try:
                if kind in SIBLING_OPS:
                    if kind in ("generate_children", "pub_generate_children"):
                        rec["result"] = [_canon(x, prv=not pub) for x in result]
                        if ls.invalid_at is None:
                            rec["expected"] = [_ref_canon(r, prv=not pub) for r in ls.refs]
                    else:
                        rec["result"] = [list(x) for x in result]
                        rec["expected"] = rec["result"]          # addresses are C05; only raise/return is judged
                elif kind in BIP85_FREE:
                    rec["result"] = result
                    rec["expected"] = result                     # values are C12; only raise/return is judged
                elif kind.startswith("bip85"):
                    rec["result"] = result
                    if ls.final is not None and ls.invalid_at is None:
                        if kind == "bip85_wif":
                            rec["expected"] = rb.wif(int.from_bytes(ls.final[:32], "big"))
                        else:
                            rec["expected"] = rb.build_xprv(rb.XPRV, 0, b"\x00" * 4, 0, ls.final[:32],
                                                            int.from_bytes(ls.final[32:], "big"))
                else:
                    chain = []
                    n = result
                    for _ in range(max(1, len(ls.levels))):
                        chain.append(n)
                        n = n.parent
                        if n is None:
                            break
                    chain.reverse()
                    rec["result"] = [_canon(x, prv=not pub) for x in chain]
                    if ls.invalid_at is None:
                        rec["expected"] = [_ref_canon(r, prv=not pub) for r in ls.refs]
                        if "out" in op and not pub and ls.refs and not op.get("temp_parent"):
                            handles[op["out"]] = (result, ls.refs[-1])
                    if op.get("temp_parent"):
                        # judge the node the caller actually holds (the last one); intermediate nodes are reachable
                        # only through it
                        rec["result"] = rec["result"][-1:]
                        if "expected" in rec:
                            rec["expected"] = rec["expected"][-1:]
            except Exception as e:
                rec["observe_exc"] = type(e).__name__
        records.append(rec)
    seam.uninstall()
    stats = {"ops": len(plan["ops"]), "prf_calls": seam.calls, "cells": cells, "fault_kinds_fired": fired,
             "seam_reached": dict(seam.reached), "config": {plan["config"]["config"]: 1},
             "root_class": {plan["root"].get("scalar_class", "seed"): 1}}
    return {"records": records, "stats": stats}


# =========================================================================== simulator
class DerivationSim(Simulator):
    props = ("C01", "C18")

    def selftest(self, prop):
        rb.selftest()
        # seam liveness: a probe derivation must be seen by the PRF stub with the spec layout
        plan = {"property": prop, "seed": 0, "config": {"config": "probe", "cell": None},
                "root": {"kind": "seed", "seed_hex": "000102030405060708090a0b0c0d0e0f", "testnet": False},
                "ops": [{"op": "derive_path", "h": "r", "il": [HARD, 1], "out": "a", "faults": {}},
                        {"op": "pub_ckd", "h": "a", "i": 2, "out": "b", "faults": {}},
                        {"op": "bip85_wif", "h": "r", "i": 0, "faults": {}},
                        {"op": "master", "seed_hex": "00" * 16, "testnet": False, "out": "m2", "faults": {}}]}
        out = _run_child(plan)
        if out["stats"]["prf_calls"] != 2 + 1 + 4 + 1:
            raise core.HarnessError("PRF seam dead or leaky: saw %d calls, expected 8" % out["stats"]["prf_calls"])
        for r in out["records"]:
            if r.get("exc") or r.get("layout_bad") or any(c.get("unexpected") for c in r["calls"]):
                raise core.HarnessError("PRF seam probe mismatch: %r" % r)
            if r["result"] != r["expected"]:
                raise core.HarnessError("reference model disagrees with library on BIP32 vector 1 probe: %r" % r)
        # cross-check own curve against the ecdsa package on random scalars
        import ecdsa
        G = ecdsa.ecdsa.generator_secp256k1
        rng = random.Random(99)
        for _ in range(8):
            k = rng.randrange(1, N)
            q = k * G
            if (q.x(), q.y()) != secp.mul_g(k):
                raise core.HarnessError("reference curve disagrees with ecdsa")
        return {"prf_calls_probe": out["stats"]["prf_calls"], "seam_reached": out["stats"]["seam_reached"]}

    def generate(self, prop, seed, tier, idx):
        return gen_plan(prop, seed, tier, idx)

    def run(self, prop, plan):
        st, out = core.fork_call(_run_child, (plan,), timeout=120)
        if st != "ok":
            return {"trace": plan, "violations": [], "stats": {}, "digest": None,
                    "harness_error": "run child %s: %s" % (st, out)}
        violations = []
        oos = 0
        seen = set()
        planted_any = False
        for r in out["records"]:
            if r.get("skipped"):
                continue
            op = plan["ops"][r["j"]]
            pub = r["op"].startswith("pub")
            planted_any = planted_any or bool(op.get("faults"))
            unexpected = [c for c in r["calls"] if c.get("unexpected")]

            def add(cls, sig, detail):
                if cls in seen:
                    return
                seen.add(cls)
                violations.append({"class": cls, "signature": sig, "detail": detail})
            if r["invalid_at"] is not None:
                # the model says: invalid -> the call must raise
                o, reason = r["invalid_at"]
                site = site_of(op, o)
                if r["exc"] is None:
                    if prop == "C18":
                        add("C18/returned-invalid/%s/%s" % (site, reason.replace(" ", "")),
                            {"clause": "invalid child returned instead of error", "site": site, "reason": reason},
                            {"op": {k: v for k, v in op.items()}, "call_ordinal": o,
                             "returned": r.get("result"), "reason": reason})
                    else:
                        oos += 1
                continue
            # the model says: valid
            if prop != "C01":
                if r["exc"] is None and r.get("result") != r.get("expected"):
                    oos += 1
                continue
            if pub:
                if r["exc"] is not None or r.get("result") != r.get("expected") or r["layout_bad"]:
                    oos += 1            # public-side value agreement is C02 (not claimed)
                continue
            if r["op"] in BIP85_FREE or r["op"] in ("addr_gen", "pub_addr_gen"):
                if r["exc"] is not None:
                    oos += 1            # BIP85 values are C12, addresses C05 (not claimed); C18 judges the raise side
                continue
            if r["layout_bad"]:
                add("C01/prf-input-layout",
                    {"clause": "HMAC key/data layout", "op": r["op"]},
                    {"op": op, "bad": r["layout_bad"][:2]})
            if unexpected:
                oos += 1      # an additional HMAC call is not forbidden by the property; it got the real HMAC back
            if r["exc"] is not None:
                add("C01/refused-valid",
                    {"clause": "valid child refused", "op": r["op"], "exc": r["exc"]},
                    {"op": op, "exc": r["exc"], "planted": op.get("faults")})
            elif r.get("observe_exc"):
                add("C01/unserialisable",
                    {"clause": "derived node cannot be serialised", "op": r["op"]},
                    {"op": op, "exc": r["observe_exc"]})
            elif r.get("result") != r.get("expected"):
                add("C01/value-mismatch",
                    {"clause": "child differs from reference CKDpriv", "op": r["op"]},
                    {"op": op, "library": r.get("result"), "reference": r.get("expected"),
                     "root": plan["root"]})
        stats = out["stats"]
        stats["out_of_scope_disagreement"] = oos
        dg = core.digest(out["records"])
        sample = {"root": plan["root"], "ops": plan["ops"][:6], "config": plan["config"]}
        return {"trace": plan, "violations": violations, "stats": stats, "digest": dg,
                "nontrivial": bool(stats["fault_kinds_fired"]) or plan["config"]["config"] == "fault_free" and stats["ops"] >= 2,
                "harness_error": None, "sample": sample}

    # ----------------------------------------------------------------------- shrinking
    def size(self, prop, plan):
        return len(plan["ops"]) + sum(len(o.get("faults", {})) + len(_levels_for(o)) for o in plan["ops"])

    def shrink(self, prop, plan):
        ops = plan["ops"]

        def with_ops(nops):
            p = dict(plan)
            p["ops"] = nops
            return p
        for cand in chunked_drops(ops):
            yield with_ops(cand)
        for j, op in enumerate(ops):
            f = op.get("faults", {})
            if len(f) > 1:
                for k in list(f):
                    nf = {a: b for a, b in f.items() if a != k}
                    n = list(ops)
                    n[j] = dict(op, faults=nf)
                    yield with_ops(n)
            if "il" in op and len(op["il"]) > 1:
                # drop one level (fault ordinals after it shift down)
                for lvl in range(len(op["il"])):
                    if str(lvl) in f:
                        continue
                    nil = op["il"][:lvl] + op["il"][lvl + 1:]
                    nf = {str(int(a) - 1 if int(a) > lvl else int(a)): b for a, b in f.items()}
                    n = list(ops)
                    n[j] = dict(op, il=nil, faults=nf)
                    yield with_ops(n)
            for key in ("i",):
                if key in op and op[key] not in (0, HARD):
                    n = list(ops)
                    n[j] = dict(op, **{key: HARD if op[key] >= HARD else 0})
                    yield with_ops(n)
            if "il" in op:
                for lvl, v in enumerate(op["il"]):
                    if v not in (0, HARD):
                        nil = list(op["il"])
                        nil[lvl] = HARD if v >= HARD else 0
                        n = list(ops)
                        n[j] = dict(op, il=nil)
                        yield with_ops(n)
        root = plan["root"]
        if root["kind"] == "xprv":
            simple = {"kind": "xprv", "scalar_class": "one", "k": "%064x" % 1, "depth": 0, "pfp": "00000000",
                      "index": 0, "chain": "00" * 32, "testnet": False}
            for key in ("depth", "index", "pfp", "chain", "testnet", "k"):
                if root[key] != simple[key]:
                    p = dict(plan)
                    p["root"] = dict(root, **{key: simple[key]})
                    yield p

    # ----------------------------------------------------------------------- reporting
    def secondary_backends(self, prop, tier):
        return [("stub", 800, None), ("ecdsa-O", 300, None)] if tier == "quick" else [("stub", None, 120), ("ecdsa-O", None, 60)]

    def quick_runs(self, prop):
        return int(os.environ.get("VERIF_%s_RUNS" % prop, "3200"))

    def thorough_seconds(self, prop):
        return int(os.environ.get("VERIF_%s_SECONDS" % prop, "600"))

    def rule(self, prop):
        what = ("INVALID outputs (IL>=n, IL=n-k_par, master IL=0, BIP85 secret 0/>=n)" if prop == "C18"
                else "VALID corner outputs (IL=0/1/n-1, child=1/n-1/leading-zero, IL=k_par, IR=00/ff) or none (fault-free batch)")
        return ("one run = root (seed, or extended private key built by the reference serialiser with scalar class, depth "
                "0..254, fingerprint, child number, chain code) + 1..9 operations (ckd, derive_path, by_path, public twin "
                "ckd/derive_path, BIP85 wif/xprv, master) executed by the library with every HMAC-SHA512 call routed through "
                "the PRF stub; the fault plan plants %s at seeded (operation, call ordinal) sites; the first 2x|matrix| runs "
                "enumerate the fault matrix (site x kind x level position) cell by cell. Non-trivial = at least one planted "
                "output actually reached the library (or >=2 ops in the fault-free batch); distinct = digest over all call "
                "records and observations." % what)

    def coverage_extra(self, prop, st):
        cells = st.get("cells", {})
        allc = ["%s|%s|%s" % c for c in enumerate_cells(prop == "C18")]
        return {
            "simulated_time": "no timers: logical time = PRF calls served by the stub: %d" % st.get("prf_calls", 0),
            "fault_kinds_fired": st.get("fault_kinds_fired", {}),
            "fault_matrix_cells_total": len(allc),
            "fault_matrix_cells_hit": len([c for c in allc if cells.get(c, 0) > 0]),
            "fault_matrix": {c: cells.get(c, 0) for c in allc},
        }

    def reach_failures(self, prop, st, tier):
        cells = st.get("cells", {})
        out = []
        for c in enumerate_cells(prop == "C18"):
            key = "%s|%s|%s" % c
            if cells.get(key, 0) == 0:
                out.append("fault matrix cell %s never fired" % key)
        sr = st.get("seam_reached", {})
        if not sr.get("module_name") and not sr.get("hmac.new") and not sr.get("hmac.digest"):
            out.append("PRF seam never reached")
        return out[:8]

    def real_components(self, prop):
        return ["btc_hd_wallet.bip32 / keys / helper / bip85 / base_wallet / wallet_utils (unmodified)", "ecdsa package",
                "hashlib"]

    def stub_components(self, prop):
        return ["HMAC-SHA512 outputs at planted call sites (all other calls return the real HMAC, computed by the harness's "
                "own RFC 2104 implementation)", "reference model: harness secp256k1 + BIP32 (oracle)"]

    def assumptions(self, prop):
        a = ["ecdsa fallback back end only (libsecp256k1 absent): the pysecp256k1 branch is dead code here",
             "reference model correctness (self-tested against BIP32 vector 1 and the ecdsa package at start-up)"]
        if prop == "C18":
            a.append("IL=0 for a child is valid per BIP32 (k_i = k_par) and is not planted as an invalid kind")
        else:
            a.append("public-side disagreements are C02 (not claimed) and only counted as out_of_scope_disagreement")
        return a


SIM = DerivationSim()
