"""S5 / C19 -- scripts and varints on a faulty wire.

A writer serialises 1-5 scripts (or varints) back-to-back into one wire; the
wire is a BytesIO subclass that logs every read; a seeded fault (EOF at an
offset inside a message, byte flip, splice, tail garbage) is delivered; a
reader parses message after message from the same stream.  Oracle: fault-free
wires round-trip with the standard minimal pushes and exact byte accounting;
on faulty wires a strict reference parser classifies the bytes -- the library
may always refuse, but what it accepts the reference must accept with the same
elements and the same number of consumed bytes.  See DESIGN.md section 7.
"""
import io
import os
import random

from sim import core
from sim.base import Simulator, chunked_drops
from sim.ref import script_ref as sr

LENS = [1, 2, 20, 32, 33, 74, 75, 76, 77, 127, 128, 254, 255, 256, 257, 300, 511, 512, 513, 519, 520]
VARINTS = [0, 1, 0xfc, 0xfd, 0xfe, 0xff, 0x100, 0xffff, 0x10000, 0x10001, 0xffffffff, 0x100000000, 0x100000001,
           2 ** 63, 2 ** 64 - 1]
WIRES_PER_RUN = 120


class Wire(io.BytesIO):
    """The stream handed to the library; isinstance(BytesIO) holds; every read is logged."""

    def __init__(self, data):
        super().__init__(data)
        self.reads = []

    def read(self, n=-1):
        d = super().read(n)
        self.reads.append((n, len(d)))
        return d


# =========================================================================== generation
def gen_script(rng, big=True):
    cmds = []
    for _ in range(rng.randint(0, 5) if rng.random() < 0.9 else rng.randint(6, 12)):
        if rng.random() < 0.5:
            b = rng.randrange(256)
            if 1 <= b <= 77:
                b = rng.choice([0, 78, 79, 0x51, 0x76, 0xa9, 0x87, 0x88, 0xac, 0xae, 0xff])
            cmds.append(b)
        else:
            x = rng.random()
            n = rng.choice(LENS) if (big and x < 0.55) else rng.randint(76, 520) if (big and x < 0.65) else rng.randint(1, 80)
            cmds.append({"d": gen_content(rng, n).hex()})
    return cmds


def gen_content(rng, n):
    """Element bytes: random, or a pattern that content-dependent code would treat specially (all zero / all ones,
    small numbers that have dedicated opcodes, bytes that look like push opcodes or varint markers)."""
    x = rng.random()
    if x < 0.6 or n == 0:
        return rng.randbytes(n)
    if x < 0.7:
        return bytes([rng.choice([0x00, 0xff, 0x80, 0x4c, 0x4d, 0x4e, 0xfd, 0xfe])]) * n
    if x < 0.8:
        return bytes([rng.choice(list(range(0, 18)) + [0x4b, 0x4c, 0x4d, 0x4e, 0x4f, 0x50, 0x51, 0x60, 0x7f, 0x80, 0x81, 0xfd, 0xff])]) + rng.randbytes(n - 1)
    if x < 0.9:
        return rng.randbytes(n - 1) + bytes([rng.choice([0x00, 0x80, 0xff])])
    return (bytes([n & 0xff]) + rng.randbytes(n))[:n]


def gen_wire(rng, faulty):
    kind = "script" if rng.random() < 0.75 else "varint"
    if kind == "script":
        msgs = [gen_script(rng) for _ in range(rng.randint(1, 5) if rng.random() < 0.7 else 1)]
        x = rng.random()
        if x < 0.04:
            # total serialised length right at a length-prefix boundary (252..256 bytes: 0xfc / 0xfd forms)
            tgt = rng.choice([250, 251, 252, 253, 254, 255, 256, 257])
            first = rng.choice([74, 75, 76, 100])
            rest = tgt - (first + (1 if first <= 75 else 2))
            body = [{"d": rng.randbytes(first).hex()}]
            while rest > 0:
                n = min(rest - 1, 75) if rest > 1 else 0
                if n <= 0:
                    body.append(0x51)
                    rest -= 1
                else:
                    body.append({"d": rng.randbytes(n).hex()})
                    rest -= n + 1
            msgs[0] = body
        elif x < 0.06:
            # MANY commands (a count limit on commands must not refuse what was serialised): 150-1200 opcodes / tiny pushes
            n_ = rng.choice([150, 200, 201, 202, 256, 300, 600, 1200])
            msgs = [[rng.choice([0x51, 0x76, 0xac]) if rng.random() < 0.5 else {"d": rng.randbytes(rng.randint(1, 3)).hex()}
                     for _ in range(n_)]]
        elif x < 0.065:
            # a script of >= 65536 bytes (0xfe length prefix): ~130 elements of ~515 bytes
            msgs = [[{"d": rng.randbytes(rng.randint(505, 520)).hex()} for _ in range(rng.randint(126, 132))]]
        if rng.random() < 0.08 and not faulty:
            # refusal / out-of-domain probes: 521 must be refused; 0 is outside the property's domain
            msgs = [[{"d": "00" * rng.choice([521, 521, 600, 0])}]]
    else:
        msgs = [rng.choice(VARINTS + [rng.getrandbits(rng.choice([7, 8, 15, 16, 17, 31, 32, 33, 63, 64])),
                                      2 ** 31 + rng.getrandbits(31), 2 ** 32 + rng.getrandbits(16),
                                      2 ** 63 + rng.getrandbits(63), 0x10000 + rng.getrandbits(8)])
                for _ in range(rng.randint(1, 5))]
        if rng.random() < 0.1 and not faulty:
            msgs = [2 ** 64 + rng.randrange(3)]
    fault = None
    if faulty:
        fk = rng.choice(["eof", "eof", "eof", "flip", "splice_del", "splice_ins", "tail", "crafted", "crafted"])
        fault = {"kind": fk, "pos": rng.random(), "msg": rng.randrange(len(msgs)), "val": rng.randrange(1, 256),
                 "n": rng.randint(1, 4), "where": rng.choice(["any", "varint", "push-length", "push-data", "boundary"]),
                 "delta": rng.choice([-2, -1, 0, 0, 1, 1, 2, 3])}
    return {"kind": kind, "msgs": msgs, "fault": fault}


def gen_plan(seed, tier, idx):
    rng = random.Random(seed)
    faulty = idx % 2 == 1
    wires = [gen_wire(rng, faulty) for _ in range(WIRES_PER_RUN)]
    if not faulty:
        # systematic part: element lengths 0..521 are covered exhaustively by the fault-free batch
        # (run i, wire j carries one element of length (60*i + j) mod 522 as its first message)
        base = (idx // 2) * WIRES_PER_RUN
        for j in range(0, WIRES_PER_RUN, 2):
            L = (base // 2 + j // 2) % 522
            w = wires[j]
            if w["kind"] == "script" and L >= 1:
                w["msgs"] = [[{"d": rng.randbytes(L).hex()}]] + (w["msgs"] if L <= 520 and
                                                                    all(1 <= len(c["d"]) // 2 <= 520 for m in w["msgs"] for c in m if not isinstance(c, int)) else [])
                w["msgs"] = w["msgs"][:5]
    return {"property": "C19", "seed": seed, "config": {"batch": "fault" if faulty else "fault_free"},
            "wires": wires}


# =========================================================================== execution
def _cmds(spec):
    return [c if isinstance(c, int) else bytes.fromhex(c["d"]) for c in spec]


def _structure(msg_bytes):
    """Offsets of structural regions of one serialised script: varint, push-length bytes, push data."""
    r = sr.ref_read_varint(msg_bytes, 0)
    regions = {"varint": list(range(0, r[2])), "push-length": [], "push-data": [], "opcode": []}
    p = r[2]
    end = len(msg_bytes)
    while p < end:
        b = msg_bytes[p]
        if 1 <= b <= 75:
            regions["push-length"].append(p)
            regions["push-data"] += list(range(p + 1, min(end, p + 1 + b)))
            p += 1 + b
        elif b in (76, 77):
            h = b - 75
            regions["push-length"] += list(range(p, min(end, p + 1 + h)))
            n = int.from_bytes(msg_bytes[p + 1:p + 1 + h], "little")
            regions["push-data"] += list(range(p + 1 + h, min(end, p + 1 + h + n)))
            p += 1 + h + n
        else:
            regions["opcode"].append(p)
            p += 1
    return regions


def apply_fault(parts, fault):
    """parts: list of serialised messages. Returns (wire bytes, description)."""
    data = b"".join(parts)
    if fault is None:
        return data, None
    starts = []
    o = 0
    for p in parts:
        starts.append(o)
        o += len(p)
    mi = min(fault["msg"], len(parts) - 1)
    base = starts[mi]
    m = parts[mi]
    cand = list(range(len(m)))
    where = fault.get("where", "any")
    if where == "boundary":
        off = base + (len(m) if fault["pos"] < 0.5 else 0)
    else:
        if where in ("varint", "push-length", "push-data") and fault.get("_regions"):
            cand = fault["_regions"].get(where) or cand
        off = base + (cand[int(fault["pos"] * len(cand))] if cand else 0)
    k = fault["kind"]
    if k == "crafted":
        # adversarial sender: the message is cut at `off` and its declared length is re-written to the length of
        # what is left plus a small delta (what a parser that trusts declared push lengths would count)
        r = sr.ref_read_varint(m, 0)
        body = m[r[2]:]
        cut = max(0, off - base - r[2])
        left = body[:cut]
        decl = max(0, len(left) + fault.get("delta", 0))
        return data[:base] + sr.ref_encode_varint(decl) + left, {"kind": k, "offset": base, "declared": decl,
                                                               "present": len(left)}
    if k == "eof":
        return data[:off], {"kind": k, "offset": off, "of": len(data)}
    if k == "flip":
        if off >= len(data):
            off = len(data) - 1
        if off < 0:
            return data, None
        return data[:off] + bytes([data[off] ^ fault["val"]]) + data[off + 1:], {"kind": k, "offset": off}
    if k == "splice_del":
        return data[:off] + data[off + fault["n"]:], {"kind": k, "offset": off, "n": fault["n"]}
    if k == "splice_ins":
        ins = bytes([(fault["val"] + i) % 256 for i in range(fault["n"])])
        return data[:off] + ins + data[off:], {"kind": k, "offset": off, "n": fault["n"]}
    if k == "tail":
        return data + bytes([(fault["val"] * (i + 1)) % 256 for i in range(fault["n"] * 7)]), {"kind": k}
    raise core.HarnessError("fault kind %r" % k)


def _run_child(plan):
    from btc_hd_wallet.script import Script
    from btc_hd_wallet.helper import read_varint, encode_varint
    violations = []
    stats = {"wires": 0, "messages_parsed": 0, "library_refusals": 0, "accepted_after_fault": 0,
             "fault_kinds_fired": {}, "cells": {}, "push_classes": {}, "reads": 0, "distinct_wires_in_run": 0}
    wire_seen = set()
    len_seen = set()
    events = []

    def add(cls, sig, detail):
        if not any(v["class"] == cls for v in violations):
            violations.append({"class": cls, "signature": sig, "detail": detail})

    for wi, w in enumerate(plan["wires"]):
        stats["wires"] += 1
        fault = w.get("fault")
        # ------------------------------------------------------------- writer
        parts = []
        writer_failed = False
        if w["kind"] == "script":
            for mi, spec in enumerate(w["msgs"]):
                cmds = _cmds(spec)
                lens = [len(c) for c in cmds if not isinstance(c, int)]
                for n in lens:
                    if n <= 521:
                        len_seen.add(n)
                in_domain = all(1 <= n <= 520 for n in lens)
                for n in lens:
                    pc = "bare" if n <= 75 else "pushdata1" if n <= 255 else "pushdata2" if n <= 520 else "over"
                    stats["push_classes"][pc] = stats["push_classes"].get(pc, 0) + 1
                try:
                    if len(cmds) >= 2 and (wi + mi) % 5 == 0:
                        k_ = len(cmds) // 2
                        a_, b_ = Script(list(cmds[:k_])), Script(list(cmds[k_:]))
                        sobj = a_ + b_
                        ser = sobj.serialize()
                        if a_.cmds != list(cmds[:k_]) or b_.cmds != list(cmds[k_:]) or sobj.serialize() != ser:
                            add("C19/add-aliases-operands", {"clause": "round-trip", "via": "__add__"}, {"wire": wi})
                    else:
                        sobj = Script(list(cmds))
                        ser = sobj.serialize()
                        if sobj.serialize() != ser:
                            add("C19/second-serialisation-differs", {"clause": "round-trip"}, {"wire": wi})
                    exc = None
                except Exception as e:
                    ser, exc = None, type(e).__name__
                if any(n > 520 for n in lens):
                    if exc is None:
                        add("C19/oversize-element-serialised", {"clause": "over-520-refused"},
                            {"wire": wi, "element_lengths": lens})
                    writer_failed = True
                    break
                if not in_domain:
                    writer_failed = True     # zero-length element: outside the property's domain, no verdict
                    break
                want = sr.ref_serialize(cmds)
                if exc is not None:
                    add("C19/valid-element-refused", {"clause": "serialise-1..520", "lengths": sorted(set(lens))[:6]},
                        {"wire": wi, "message": mi, "exception": exc, "element_lengths": lens})
                    writer_failed = True
                    break
                if ser != want:
                    add("C19/non-standard-push-encoding", {"clause": "minimal-push"},
                        {"wire": wi, "message": mi, "element_lengths": lens, "library": ser[:80].hex(),
                         "standard": want[:80].hex()})
                    writer_failed = True
                    break
                parts.append(ser)
        else:
            for mi, v in enumerate(w["msgs"]):
                try:
                    enc = encode_varint(v)
                    exc = None
                except Exception as e:
                    enc, exc = None, type(e).__name__
                if v >= 2 ** 64:
                    if exc is None:
                        add("C19/varint-over-2^64-encoded", {"clause": "varint-range"}, {"wire": wi, "value": v})
                    writer_failed = True
                    break
                if exc is not None or enc != sr.ref_encode_varint(v):
                    add("C19/varint-encoding", {"clause": "varint-shortest-form"},
                        {"wire": wi, "value": v, "library": enc.hex() if enc else exc,
                         "standard": sr.ref_encode_varint(v).hex()})
                    writer_failed = True
                    break
                parts.append(enc)
        if writer_failed or not parts:
            events.append([wi, "writer-stop"])
            continue
        # ------------------------------------------------------------- the wire and its fault
        if fault is not None and w["kind"] == "script":
            fault = dict(fault, _regions=_structure(parts[min(fault["msg"], len(parts) - 1)]))
        data, fdesc = apply_fault(parts, fault)
        if fdesc is not None:
            stats["fault_kinds_fired"][fdesc["kind"]] = stats["fault_kinds_fired"].get(fdesc["kind"], 0) + 1
        wire = Wire(data)
        wire_seen.add(data)
        # ------------------------------------------------------------- reader
        pos = 0
        n_ok = 0
        log = []
        limit = len(parts) + (2 if fault else 0)
        while n_ok < limit and (pos < len(data) or (fault is not None and n_ok < len(parts))):
            before = wire.tell()
            try:
                if w["kind"] == "script":
                    got = Script.parse(wire)
                    got_cmds = list(got.cmds)
                else:
                    got_cmds = read_varint(wire)
                exc = None
            except Exception as e:
                got_cmds, exc = None, type(e).__name__
            after = wire.tell()
            if w["kind"] == "script":
                ref = sr.ref_parse(data, before)
            else:
                r = sr.ref_read_varint(data, before)
                ref = ("ok", r[1], r[2]) if r[0] == "ok" else ("short", r[1], "varint")
            if exc is not None:
                stats["library_refusals"] += 1
                log.append(["refused", exc, ref[0]])
                if fault is None or fdesc is None:
                    add("C19/valid-message-refused", {"clause": "round-trip", "kind": w["kind"]},
                        {"wire": wi, "message": n_ok, "exception": exc, "bytes": data[before:before + 60].hex()})
                break
            stats["messages_parsed"] += 1
            if fdesc is not None:
                stats["accepted_after_fault"] += 1
            if ref[0] != "ok":
                cell = "%s|%s" % (fdesc["kind"] if fdesc else "none", ref[2])
                add("C19/accepted-%s/%s" % ("truncated-input" if ref[0] == "short" else "malformed-input", ref[2]),
                    {"clause": "input-ends-early" if ref[0] == "short" else "byte-accounting", "where": ref[2],
                     "kind": w["kind"]},
                    {"wire": wi, "message": n_ok, "fault": fdesc, "wire_hex": data[before:before + 80].hex(),
                     "wire_len": len(data), "parse_started_at": before, "reference": list(ref[:2]),
                     "library_returned": _show(got_cmds), "cell": cell})
                break
            ref_cmds, ref_end = ref[1], ref[2]
            if got_cmds != ref_cmds:
                add("C19/elements-differ", {"clause": "round-trip", "kind": w["kind"]},
                    {"wire": wi, "message": n_ok, "fault": fdesc, "library": _show(got_cmds), "reference": _show(ref_cmds)})
                break
            if after != ref_end:
                add("C19/consumed-wrong-byte-count", {"clause": "byte-accounting", "kind": w["kind"]},
                    {"wire": wi, "message": n_ok, "fault": fdesc, "consumed": after - before, "declared": ref_end - before})
                break
            if w["kind"] == "script":
                # the PARSED object itself must serialise to the standard minimal form of its elements (whatever
                # spelling it was parsed from), refuse elements over 520 bytes, and stay correct when extended
                lens_ = [len(c) for c in ref_cmds if not isinstance(c, int)]
                if all(n >= 1 for n in lens_):
                    try:
                        again = got.serialize()
                        exc2 = None
                    except Exception as e:
                        again, exc2 = None, type(e).__name__
                    if any(n > 520 for n in lens_):
                        if exc2 is None:
                            add("C19/oversize-element-serialised", {"clause": "over-520-refused", "via": "parsed-object"},
                                {"wire": wi, "message": n_ok, "element_lengths": lens_[:8]})
                            break
                    else:
                        want2 = sr.ref_serialize(ref_cmds)
                        if again != want2:
                            add("C19/parsed-script-reserialises-differently", {"clause": "minimal-push", "via": "parsed-object"},
                                {"wire": wi, "message": n_ok, "fault": fdesc, "library": (again or exc2 or b"")[:60].hex()
                                 if isinstance(again, bytes) else exc2, "standard": want2[:60].hex()})
                            break
                        try:
                            ext = (got + Script([0xac])).serialize()
                            got.cmds.append(0x87)
                            ext2 = got.serialize()
                            got.cmds.pop()
                        except Exception as e:
                            ext, ext2 = type(e).__name__, None
                        if ext != sr.ref_serialize(ref_cmds + [0xac]) or ext2 != sr.ref_serialize(ref_cmds + [0x87]):
                            add("C19/extended-parsed-script-serialises-stale", {"clause": "round-trip", "via": "parsed-object"},
                                {"wire": wi, "message": n_ok})
                            break
                        # HISTORY: the caller owns what parse returned and may edit it in place; a later parse of the
                        # same bytes (and of every other message) must not see that edit
                        try:
                            got.cmds.append(0x75)
                            if len(got.cmds) > 1:
                                got.cmds[0] = 0x6a
                            second = list(Script.parse(Wire(data[before:ref_end])).cmds)
                        except Exception as e:
                            second = type(e).__name__
                        stats["reparsed_after_edit"] = stats.get("reparsed_after_edit", 0) + 1
                        if second != ref_cmds:
                            add("C19/parse-depends-on-earlier-parse", {"clause": "round-trip", "via": "edited-parsed-object"},
                                {"wire": wi, "message": n_ok, "second_parse": _show(second) if isinstance(second, list) else second,
                                 "reference": _show(ref_cmds)})
                            break
            if fault is None:
                # fault-free: equals what was written and re-serialises to the identical bytes
                if w["kind"] == "script":
                    if got_cmds != _cmds(w["msgs"][n_ok]) or Script(got_cmds).serialize() != parts[n_ok]:
                        add("C19/round-trip", {"clause": "round-trip", "kind": "script"},
                            {"wire": wi, "message": n_ok})
                        break
                elif got_cmds != w["msgs"][n_ok]:
                    add("C19/round-trip", {"clause": "round-trip", "kind": "varint"},
                        {"wire": wi, "message": n_ok, "value": w["msgs"][n_ok], "got": got_cmds})
                    break
            log.append(["parsed", after - before])
            n_ok += 1
            pos = after
        if fault is None and not violations and n_ok != len(parts):
            add("C19/messages-lost", {"clause": "round-trip"}, {"wire": wi, "parsed": n_ok, "written": len(parts)})
        if fdesc is not None:
            # coverage cell: fault kind x structural position class of the first refusal/acceptance
            where = "clean"
            if w["kind"] == "script":
                r0 = sr.ref_parse(data, 0)
                where = r0[2] if r0[0] != "ok" else "parses"
            else:
                r0 = sr.ref_read_varint(data, 0)
                where = "varint" if r0[0] != "ok" else "parses"
            key = "%s|%s|%s" % (w["kind"], fdesc["kind"], where)
            stats["cells"][key] = stats["cells"].get(key, 0) + 1
        stats["reads"] += len(wire.reads)
        events.append([wi, log])
    stats["distinct_wires_in_run"] = len(wire_seen)
    stats["element_lengths"] = ["%03d" % n for n in sorted(len_seen)]
    return {"events": events, "violations": violations, "stats": stats}


def _show(c):
    if isinstance(c, list):
        return [x if isinstance(x, int) else (x.hex()[:40] + ("..(%d bytes)" % len(x) if len(x) > 20 else "")) for x in c]
    return c


# =========================================================================== simulator
class WireSim(Simulator):
    props = ("C19",)

    def selftest(self, prop):
        # reference parser sanity + seam liveness: the library must read through the Wire object
        cmds = [0x76, 0xa9, b"\x11" * 20, 0x88, 0xac]
        ser = sr.ref_serialize(cmds)
        assert ser.hex() == "1976a914" + "11" * 20 + "88ac"
        assert sr.ref_parse(ser, 0) == ("ok", cmds, len(ser))
        assert sr.ref_parse(ser[:-1], 0)[0] == "short"
        assert sr.ref_parse(b"\x02\x05\xaa\xbb\xcc\xdd\xee", 0)[0] == "bad"
        assert sr.ref_encode_varint(0xfd) == b"\xfd\xfd\x00"
        plan = {"property": "C19", "seed": 0, "config": {"batch": "probe"},
                "wires": [{"kind": "script", "msgs": [[0x76, {"d": "11" * 20}]], "fault": None},
                          {"kind": "varint", "msgs": [300], "fault": None}]}
        out = _run_child(plan)
        if out["stats"]["reads"] < 4 or out["stats"]["messages_parsed"] != 2:
            raise core.HarnessError("wire seam dead: %r" % out["stats"])
        return {"reads_probe": out["stats"]["reads"]}

    def generate(self, prop, seed, tier, idx):
        return gen_plan(seed, tier, idx)

    def run(self, prop, plan):
        st, out = core.fork_call(_run_child, (plan,), timeout=300)
        if st != "ok":
            return {"trace": plan, "violations": [], "stats": {}, "digest": None,
                    "harness_error": "run child %s: %s" % (st, out)}
        s = out["stats"]
        sample = {"batch": plan["config"]["batch"], "first_wires": plan["wires"][:2]}
        if len(core.canon_json(sample)) > 6000:
            sample = {"batch": plan["config"]["batch"], "first_wire_kind": plan["wires"][0]["kind"],
                      "first_wire_fault": plan["wires"][0]["fault"]}
        return {"trace": plan, "violations": out["violations"], "stats": s, "digest": core.digest(out["events"]),
                "nontrivial": s["messages_parsed"] + s["library_refusals"] >= 10, "harness_error": None,
                "sample": sample}

    def size(self, prop, plan):
        return sum(1 + sum((len(m) if isinstance(m, list) else 1) for m in w["msgs"]) for w in plan["wires"])

    def shrink(self, prop, plan):
        def with_wires(ws):
            p = dict(plan)
            p["wires"] = ws
            return p
        wires = plan["wires"]
        for cand in chunked_drops(wires):
            if cand:
                yield with_wires(cand)
        for i, w in enumerate(wires[:3]):
            # fewer messages
            for cand in chunked_drops(w["msgs"]):
                if cand:
                    nf = w["fault"]
                    if nf is not None:
                        nf = dict(nf, msg=min(nf["msg"], len(cand) - 1))
                    yield with_wires(wires[:i] + [dict(w, msgs=cand, fault=nf)] + wires[i + 1:])
            if w["kind"] == "script":
                for mi, m in enumerate(w["msgs"]):
                    for cand in chunked_drops(m):
                        nm = list(w["msgs"])
                        nm[mi] = cand
                        yield with_wires(wires[:i] + [dict(w, msgs=nm)] + wires[i + 1:])
                    for ci, c in enumerate(m):
                        if not isinstance(c, int) and len(c["d"]) > 2:
                            for newlen in (1, len(c["d"]) // 4):
                                if newlen * 2 < len(c["d"]) and newlen >= 1:
                                    nm = list(w["msgs"])
                                    nm[mi] = m[:ci] + [{"d": c["d"][:2 * newlen]}] + m[ci + 1:]
                                    yield with_wires(wires[:i] + [dict(w, msgs=nm)] + wires[i + 1:])

    def secondary_backends(self, prop, tier):
        # interpreter configuration: the same simulator under `python -O` (assert statements stripped)
        return [("ecdsa-O", 400, None)] if tier == "quick" else [("ecdsa-O", None, 60)]

    def quick_runs(self, prop):
        return int(os.environ.get("VERIF_C19_RUNS", "4800"))

    def thorough_seconds(self, prop):
        return int(os.environ.get("VERIF_C19_SECONDS", "480"))

    def rule(self, prop):
        return ("one run = %d wires; a wire = 1-5 scripts (opcodes from all byte values outside the push range; data "
                "elements with lengths from {1,2,20,32,33,74,75,76,77,255,256,257,519,520} or random 1-80; 521/600/0 probes) "
                "or 1-5 varints (boundary values and random widths) serialised back-to-back by the library, delivered "
                "through a read-logging BytesIO subclass, parsed message after message from the same stream. Even run "
                "indexes are fault-free, odd ones deliver one seeded fault per wire: EOF at an offset chosen inside the "
                "varint / a push-length / push data / at a message boundary, byte flip, splice (insert/delete 1-4 bytes), "
                "tail garbage, or a crafted message (cut inside a push, declared length re-written to the remaining "
                "length -2..+3: an adversarial sender). Non-trivial = >= 10 messages parsed or refused in the run; distinct by digest of the "
                "per-wire parse logs." % WIRES_PER_RUN)

    def coverage_extra(self, prop, st):
        return {
            "simulated_time": "no timers: logical time = read() calls served by the wire: %d" % st.get("reads", 0),
            "fault_kinds_fired": st.get("fault_kinds_fired", {}),
            "fault_position_cells": st.get("cells", {}),
            "distinct_wires": st.get("distinct_wires_in_run", 0),
            "element_lengths_0_to_521_covered": "%d of 522" % st.get("element_lengths#distinct", 0),
            "wires": st.get("wires", 0),
        }

    def reach_failures(self, prop, st, tier):
        out = []
        for k in ("eof", "flip", "splice_del", "splice_ins", "tail", "crafted"):
            if not st.get("fault_kinds_fired", {}).get(k):
                out.append("fault kind %s never fired" % k)
        cells = st.get("cells", {})
        for where in ("varint", "push-length", "push-data", "opcode"):
            if not cells.get("script|eof|%s" % where):
                out.append("EOF never landed in %s" % where)
        if not cells.get("varint|eof|varint"):
            out.append("EOF never landed inside a multi-byte varint")
        if st.get("element_lengths#distinct", 0) < 522 and st.get("wires", 0) >= 200000:
            out.append("element lengths covered: %d of 522" % st.get("element_lengths#distinct", 0))
        for pc in ("bare", "pushdata1", "pushdata2", "over"):
            if not st.get("push_classes", {}).get(pc):
                out.append("push class %s never generated" % pc)
        return out

    def real_components(self, prop):
        return ["btc_hd_wallet.script.Script (parse, raw_serialize, serialize), helper.read_varint / encode_varint (unmodified)"]

    def stub_components(self, prop):
        return ["the byte stream: BytesIO subclass delivering the seeded fault (EOF / flip / splice / tail garbage)",
                "strict reference parser and serialiser (oracle, harness code)"]

    def assumptions(self, prop):
        return ["byte 0x4e (PUSHDATA4) is a plain opcode for both the library and the reference: the property constrains "
                "byte accounting, not the opcode table", "zero-length data elements are outside the property's domain "
                "(1-520 bytes) and get no verdict", "the library is always allowed to refuse a faulty wire"]


SIM = WireSim()
