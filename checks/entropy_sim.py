"""S1 / C08 -- fresh wallets draw their full entropy from the OS CSPRNG.

The OS entropy source is a simulated device (deterministic stream, request log,
fault states); clock, pid and the process-wide Mersenne Twister are under plan
control; real fork() twins give process snapshots.  See DESIGN.md section 4.
"""
import os
import sys
import json
import random

from sim import core
from sim.base import Simulator, chunked_drops
from sim.ref import cli_model as cm

LENGTHS = [12, 15, 18, 21, 24]
ENT = {12: 128, 15: 160, 18: 192, 21: 224, 24: 256}
APIS = ["new_wallet", "from_entropy_bits", "mnemonic_bits", "paper_new", "cli_new"]
FAULTS = ["EIO", "NOSYS", "EAGAIN_ONCE", "EPERM", "EACCES", "ENOENT", "ENOSYS", "EINTR_ONCE", "EMFILE"]


# =========================================================================== generation
def gen_fresh(rng, cheap=False):
    api = rng.choice(["mnemonic_bits", "mnemonic_bits", "new_wallet", "from_entropy_bits", "paper_new"]
                     + ([] if cheap else ["cli_new"]))
    d = {"api": api, "len": rng.choice(LENGTHS)}
    if api in ("new_wallet", "paper_new", "cli_new", "from_entropy_bits"):
        d["password"] = rng.choice(["", "", "hunter2-ξ"])
        d["testnet"] = rng.random() < 0.3
    return d


def gen_plan(seed, tier, idx):
    rng = random.Random(seed)
    steps = []
    n = rng.randint(4, 16)
    cli_used = 0
    for _ in range(n):
        x = rng.random()
        if x < 0.30:
            f = gen_fresh(rng, cheap=cli_used >= 2)
            cli_used += f["api"] == "cli_new"
            if f["api"] == "cli_new" and cli_used == 1 and rng.random() < 0.5:
                steps.append({"op": "fresh", "fresh": dict(f)})      # the same CLI request twice in one process
                cli_used += 1
            steps.append({"op": "fresh", "fresh": f})
        elif x < 0.40:
            steps.append({"op": "prng_seed", "c": rng.choice([0, 1, 42, rng.getrandbits(32)])})
        elif x < 0.46:
            steps.append({"op": rng.choice(["prng_snapshot", "prng_restore"])})
        elif x < 0.54:
            steps.append({"op": "clock", "mode": rng.choice(["freeze", "jump_back", "jump_forward"]),
                          "dt": rng.choice([1, 3600, 10 ** 7])})
        elif x < 0.60:
            steps.append({"op": "epoch", "e": rng.randint(0, 3)})
        elif x < 0.72:
            k = rng.choice(FAULTS)
            steps.append({"op": "fault", "kind": k})
            steps.append({"op": "fresh", "fresh": gen_fresh(rng, cheap=True)})
            if rng.random() < 0.5:
                steps.append({"op": "fresh", "fresh": gen_fresh(rng, cheap=True)})
            steps.append({"op": "fault", "kind": None})
            steps.append({"op": "fresh", "fresh": gen_fresh(rng, cheap=True)})
        elif x < 0.86:
            steps.append({"op": "twin", "kind": rng.choice(["diff_device", "same_device"]),
                          "fresh": gen_fresh(rng, cheap=True), "alt_seed": rng.getrandbits(32),
                          "history": rng.randint(0, 2)})
        else:
            steps.append({"op": "reseed_repeat", "c": rng.choice([0, 7, rng.getrandbits(32)]),
                          "fresh": gen_fresh(rng, cheap=True)})
    # statistical batch: every entropy bit varies, no two wallets coincide
    for L in rng.sample(LENGTHS, rng.choice([2, 3, 5])):
        steps.insert(rng.randrange(len(steps) + 1), {"op": "sample", "len": L, "k": 64,
                                                     "api": rng.choice(["mnemonic_bits", "mnemonic_bits", "new_wallet"])})
    # bit-sensitivity: every one of >= ENT bit positions of the OS bytes served for a request must matter
    for L in rng.sample(LENGTHS, rng.choice([1, 1, 2])):
        steps.insert(rng.randrange(len(steps) + 1),
                     {"op": "sensitivity", "len": L, "base": rng.getrandbits(64),
                      "api": rng.choice(["mnemonic_bits", "mnemonic_bits", "mnemonic_bits", "new_wallet"])})
    # CONCURRENT CREATION: 2-3 caller threads create fresh wallets at the same time under the baton scheduler
    # (pre-emption inside bip39 / base_wallet / helper code). Own PRNG: the rest of the plan is unchanged.
    rng2 = random.Random((seed * 0x9E3779B1 + 0xC08C08) % 2 ** 64)
    for _ in range(rng2.choice([1, 1, 2])):
        ncl = rng2.choice([2, 2, 3])
        same_len = rng2.random() < 0.6
        L0 = rng2.choice(LENGTHS)
        cl = [{"api": rng2.choice(["mnemonic_bits", "mnemonic_bits", "new_wallet", "from_entropy_bits", "paper_new"]),
               "len": L0 if same_len else rng2.choice(LENGTHS), "password": "", "testnet": False} for _ in range(ncl)]
        pol = rng2.choice(["bernoulli", "bernoulli", "atomic", "atomic", "publish", "access"])
        sched = {"mode": "seeded", "policy": pol, "sched_seed": rng2.getrandbits(32)}
        if pol == "bernoulli":
            sched.update(p=rng2.choice([0.1, 0.3, 0.6]), p_op=0.5)
        elif pol == "atomic":
            m_ = rng2.choice([1, 2, 3, 5])
            sched.update(mod=m_, res=rng2.randrange(m_), k=rng2.choice([1, 1, 2]))
        elif pol == "publish":
            sched.update(k=rng2.choice([1, 2]))
        else:
            m_ = rng2.choice([1, 2])
            sched.update(k=rng2.choice([1, 2]), mod=m_, res=rng2.randrange(m_))
        steps.insert(rng2.randrange(len(steps) + 1), {"op": "concurrent", "clients": cl, "rounds": rng2.choice([1, 2]),
                                                       "sched": sched, "opcode": pol == "access" or rng2.random() < 0.3})
    steps.append({"op": "env_replay"})
    return {"property": "C08", "seed": seed, "config": {}, "device_key": "c08-%d" % seed, "steps": steps}


# =========================================================================== execution
def _do_fresh(f, device, vfs_box):
    """Perform one fresh-wallet request through the public API; returns the mnemonic."""
    from btc_hd_wallet.base_wallet import BaseWallet
    from btc_hd_wallet.paper_wallet import PaperWallet
    from btc_hd_wallet import bip39
    api = f["api"]
    L = f["len"]
    if api == "mnemonic_bits":
        return bip39.mnemonic_from_entropy_bits(entropy_bits=ENT[L])
    if api == "new_wallet":
        return BaseWallet.new_wallet(mnemonic_length=L, password=f.get("password", ""),
                                     testnet=f.get("testnet", False)).mnemonic
    if api == "from_entropy_bits":
        return BaseWallet.from_entropy_bits(entropy_bits=ENT[L], password=f.get("password", ""),
                                            testnet=f.get("testnet", False)).mnemonic
    if api == "paper_new":
        return PaperWallet.new_wallet(mnemonic_length=L, password=f.get("password", ""),
                                      testnet=f.get("testnet", False)).mnemonic
    if api == "cli_new":
        from checks import cli_sim
        from sim.vfs import VFS
        vfs = VFS()
        vfs.install()
        try:
            argv = ["--interval", "0", "0"] + (["--testnet"] if f.get("testnet") else []) + \
                ["new", "--mnemonic-len", str(L)] + (["--password", f["password"]] if f.get("password") else [])
            inj = cli_sim._Injector({"faults": []}, vfs, None)
            status, out, err, exc = cli_sim.run_cli(argv, vfs, inj, device)
        finally:
            vfs.uninstall()
        if status != 0:
            raise RuntimeError("cli new failed: status %s %s" % (status, exc))
        return json.loads(out)["MASTER"]["mnemonic"]
    raise ValueError(api)


def _fork_value(fn):
    """Run fn() in a forked twin; return its JSON result (no timeouts: the clock is simulated here)."""
    r, w = os.pipe()
    pid = os.fork()
    if pid == 0:
        try:
            os.close(r)
            try:
                res = {"ok": fn()}
            except BaseException as e:
                res = {"exc": type(e).__name__}
            os.write(w, json.dumps(res).encode())
        finally:
            os._exit(0)
    os.close(w)
    buf = b""
    while True:
        b = os.read(r, 65536)
        if not b:
            break
        buf += b
    os.close(r)
    os.waitpid(pid, 0)
    return json.loads(buf.decode()) if buf else {"exc": "twin died"}


def _run_child(plan):
    from sim.entropy import EntropyDevice
    from btc_hd_wallet.bip39_wordlist import word_list
    words = list(word_list)
    widx = {w: i for i, w in enumerate(words)}
    device = EntropyDevice(plan["device_key"])
    device.install(pin_clock=True)
    violations = []
    events = []
    stats = {"fresh_ok": 0, "fresh_raised": 0, "twins": {}, "faults_fired": {}, "samples": 0, "apis": {},
             "prng_resets": 0, "clock_events": 0, "bits_checked": 0, "identity_mapping_held": 0,
             "identity_mapping_checked": 0}
    seen = {}            # mnemonic -> step index (no two fresh wallets coincide)
    prev_windows = []
    snapshot = None
    pending_liveness = False

    def add(cls, sig, detail):
        if not any(v["class"] == cls for v in violations):
            violations.append({"class": cls, "signature": sig, "detail": detail})

    def fresh(si, f, tag=None, check_dup=True):
        nonlocal pending_liveness
        tag = tag or "s%d" % si
        device.tag = tag
        before_ok = sum(r[0] for r in device.requests if r[1] == tag and r[3] == "ok")
        served_before = len(device.served)
        try:
            mn = _do_fresh(f, device, None)
            exc = None
        except Exception as e:
            mn, exc = None, type(e).__name__
        finally:
            device.tag = None
        got = sum(r[0] for r in device.requests if r[1] == tag and r[3] == "ok") - before_ok
        stats["apis"][f["api"]] = stats["apis"].get(f["api"], 0) + 1
        if mn is None:
            stats["fresh_raised"] += 1
            if device.fault is None and not any(r[1] == tag and r[3] != "ok" for r in device.requests):
                # no fault in flight: a fresh-wallet request must succeed (bounded liveness after faults clear)
                add("C08/fresh-request-failed-without-fault",
                    {"clause": "liveness", "api": f["api"], "after_fault": pending_liveness},
                    {"step": si, "fresh": f, "exception": exc})
            return None
        pending_liveness = False
        stats["fresh_ok"] += 1
        nwords = len(mn.split(" "))
        ent_bits = 32 * nwords // 3
        try:
            ent = cm.entropy_from_mnemonic(mn, widx)
        except Exception:
            ent = None
            add("C08/undecodable-mnemonic", {"clause": "decode"}, {"step": si, "mnemonic_words": nwords})
        # clause 1 + 4: a returned wallet must have obtained >= ENT bits in SUCCESSFUL device requests
        if got * 8 < ent_bits or nwords != f["len"]:
            add("C08/too-few-bits-from-os-source",
                {"clause": "request-size", "api": f["api"], "device_faulted": device.fault is not None or
                 any(r[1] == tag and r[3] != "ok" for r in device.requests)},
                {"step": si, "fresh": f, "bytes_obtained_from_device": got, "entropy_bits_needed": ent_bits,
                 "words": nwords, "device_fault": device.fault})
        if check_dup and ent is not None:
            # no long run of entropy bits may re-appear in the next fresh wallet of the same process
            nb = len(ent) * 8
            v = int.from_bytes(ent, "big")
            wins = set((v >> k) & ((1 << 48) - 1) for k in range(0, nb - 47))
            for back, pw in enumerate(reversed(prev_windows[-4:])):
                common = wins & pw if (len(wins) > 40 and len(pw) > 40) else None
                if common:
                    add("C08/consecutive-wallets-share-entropy", {"clause": "entropy-reused-across-wallets", "api": f["api"]},
                        {"step": si, "fresh": f, "shared_48_bit_windows": len(common), "wallets_back": back + 1,
                         "note": "a run of >= 48 entropy bits of an earlier fresh wallet re-appears in this one"})
                    break
            prev_windows.append(wins)
            del prev_windows[:-4]
        if check_dup:
            if mn in seen:
                add("C08/fresh-wallets-coincide", {"clause": "no-two-coincide", "api": f["api"]},
                    {"step": si, "first_seen_at_step": seen[mn], "fresh": f})
            seen[mn] = si
        # clause 5 (informational): identity mapping of SystemRandom
        if ent is not None:
            served = device.served[served_before:]
            stats["identity_mapping_checked"] += 1
            if served[:len(ent)] == ent:
                stats["identity_mapping_held"] += 1
        return mn

    for si, st in enumerate(plan["steps"]):
        op = st["op"]
        if op == "fresh":
            mn = fresh(si, st["fresh"])
            events.append([si, op, mn])
        elif op == "prng_seed":
            random.seed(st["c"])
            stats["prng_resets"] += 1
        elif op == "prng_snapshot":
            snapshot = random.getstate()
        elif op == "prng_restore":
            if snapshot is not None:
                random.setstate(snapshot)
                stats["prng_resets"] += 1
        elif op == "clock":
            stats["clock_events"] += 1
            if st["mode"] == "jump_back":
                device.clock.now -= st["dt"]
            elif st["mode"] == "jump_forward":
                device.clock.now += st["dt"]
        elif op == "epoch":
            device.reseed(epoch=st["e"] + 10 * (si + 1))      # a new epoch never replays an old stream
        elif op == "fault":
            device.fault = st["kind"]
            if st["kind"] is None:
                pending_liveness = True
        elif op == "reseed_repeat":
            random.seed(st["c"])
            a = fresh(si, st["fresh"], tag="s%d.a" % si)
            random.seed(st["c"])
            b = fresh(si, st["fresh"], tag="s%d.b" % si)
            stats["prng_resets"] += 2
            events.append([si, op, a, b])
            # (coincidence is flagged by the no-two-coincide clause inside fresh())
        elif op == "twin":
            kind = st["kind"]
            stats["twins"][kind] = stats["twins"].get(kind, 0) + 1
            f = st["fresh"]

            def twin_a():
                device.reseed(key=plan["device_key"] + "|twin-a|%d" % si, epoch=0)
                device.tag = "twin"
                return _do_fresh(f, device, None)

            def twin_b():
                if kind == "diff_device":
                    device.reseed(key=plan["device_key"] + "|twin-b|%d" % si, epoch=0)
                else:
                    # same device stream; everything else a weak generator could draw from differs
                    random.seed(st["alt_seed"])
                    device.clock.now += 123456.789
                    device.clock.pid += 1
                    for h in range(st.get("history", 0)):
                        from btc_hd_wallet.base_wallet import BaseWallet
                        BaseWallet.from_bip39_seed_hex("%0128x" % (h + 1)).by_path("m/0'/%d" % h)
                    device.reseed(key=plan["device_key"] + "|twin-a|%d" % si, epoch=0)
                device.tag = "twin"
                return _do_fresh(f, device, None)
            ra = _fork_value(twin_a)
            rb_ = _fork_value(twin_b)
            events.append([si, op, kind, ra, rb_])
            if "ok" in ra and "ok" in rb_:
                if kind == "diff_device" and ra["ok"] == rb_["ok"]:
                    add("C08/entropy-not-from-device",
                        {"clause": "twins-different-device-same-wallet", "api": f["api"]},
                        {"step": si, "fresh": f, "note": "two processes identical except for the OS entropy stream "
                                                        "produced the same mnemonic"})
                if kind == "same_device" and ra["ok"] != rb_["ok"]:
                    add("C08/entropy-from-elsewhere",
                        {"clause": "twins-same-device-different-wallet", "api": f["api"]},
                        {"step": si, "fresh": f, "note": "same OS entropy stream, different process-wide PRNG state / clock / "
                                                        "pid / history => different mnemonic"})
            elif device.fault is None and ("exc" in ra or "exc" in rb_):
                add("C08/fresh-request-failed-without-fault", {"clause": "liveness", "api": f["api"], "after_fault": False},
                    {"step": si, "twin_a": ra, "twin_b": rb_})
        elif op == "sensitivity":
            if device.fault is not None:
                continue
            import hashlib as _h
            L = st["len"]
            f = {"api": st.get("api", "mnemonic_bits"), "len": L, "password": "", "testnet": False}
            base = b"".join(_h.sha512(b"sens|%d|%d" % (st["base"], i)).digest() for i in range(2))
            # Every evaluation starts from the SAME process state (a fork of this process), so a wallet that also
            # depends on earlier requests (a pool, a DRBG) is compared like with like: only the OS bytes differ.
            def one(stream):
                def run_():
                    device.forced = stream
                    device.tag = "sens"
                    n0 = sum(r[0] for r in device.requests if r[3] == "ok")
                    mn_ = _do_fresh(f, device, None)
                    return [mn_, sum(r[0] for r in device.requests if r[3] == "ok") - n0]
                r_ = _fork_value(run_)
                return r_.get("ok") or [None, 0]
            m0, n_served = one(base)
            if m0 is None or n_served == 0:
                events.append([si, op, "skipped"])
                continue
            n_pos = 8 * min(n_served, 64)
            sel = random.Random(st["base"])
            positions = sorted(set(list(range(8)) + list(range(n_pos - 8, n_pos)) +
                                   [sel.randrange(n_pos) for _ in range(40 if st.get("api") == "new_wallet" else 72)]))
            sensitive = 0
            dead = []
            for j in positions:
                b = bytearray(base)
                b[j // 8] ^= 0x80 >> (j % 8)
                mj, _n = one(bytes(b))
                if mj is not None and mj != m0:
                    sensitive += 1
                else:
                    dead.append(j)
            n_unused_allowed = n_pos - ENT[L]          # an implementation may over-read; at most this many may be dead
            stats["sensitivity_positions"] = stats.get("sensitivity_positions", 0) + len(positions)
            need = len(positions) - n_unused_allowed
            if sensitive < need:
                add("C08/served-os-bits-do-not-all-matter",
                    {"clause": "entropy-loss", "api": f["api"]},
                    {"step": si, "mnemonic_len": L, "os_bytes_served_for_the_request": n_served,
                     "bit_positions_tested": len(positions), "positions_whose_flip_changes_the_wallet": sensitive,
                     "needed": need, "dead_positions_from_first_served_bit": dead[:24]})
            events.append([si, op, L, n_served, sensitive])
        elif op == "concurrent":
            if device.fault is not None:
                continue
            import threading
            import btc_hd_wallet
            import btc_hd_wallet.__main__  # noqa: every module of the package loaded
            from sim.sched import Baton, library_code_objects
            d_ = os.path.dirname(btc_hd_wallet.__file__)
            files = [os.path.join(d_, n_ + ".py") for n_ in ("bip39", "base_wallet", "paper_wallet", "helper")]
            fs = st["clients"]
            ncl = len(fs)
            bt = Baton(ncl, st["sched"], {f_: 1.0 for f_ in files}, files[:2] if st.get("opcode") else [], 30000)
            bt.install(library_code_objects(d_))
            results = []

            def mk(c):
                def body():
                    for rnd in range(st.get("rounds", 1)):
                        tag = "s%d.c%d.%d" % (si, c, rnd)
                        bt.next_obj[c], bt.next_kind[c] = "entropy", "fresh"
                        bt.begin_op(c, tag)
                        bt.yield_point(c, "op", is_op=True)
                        bt.op_in_flight[c] = ("fresh", "entropy")
                        device.thread_tags[threading.get_ident()] = tag
                        try:
                            mn_, exc_ = _do_fresh(fs[c], device, None), None
                        except Exception as e:
                            mn_, exc_ = None, type(e).__name__
                        finally:
                            device.thread_tags.pop(threading.get_ident(), None)
                            bt.op_in_flight[c] = None
                        results.append((tag, c, mn_, exc_))
                return body
            try:
                bt.run_clients([mk(c) for c in range(ncl)])
            finally:
                bt.uninstall()
            if bt.errors:
                raise core.HarnessError("concurrent step: %s" % bt.errors[0])
            nsw = len([e for e in bt.log if e[0] == "s"])
            stats["concurrent_steps"] = stats.get("concurrent_steps", 0) + 1
            stats["concurrent_switches"] = stats.get("concurrent_switches", 0) + nsw
            stats["concurrent_wallets"] = stats.get("concurrent_wallets", 0) + len(results)
            results.sort()
            wins_here = []
            for tag, c, mn_, exc_ in results:
                f = fs[c]
                got = sum(r[0] for r in device.requests if r[1] == tag and r[3] == "ok")
                if mn_ is None:
                    add("C08/fresh-request-failed-without-fault",
                        {"clause": "liveness", "api": f["api"], "after_fault": False, "concurrent": True},
                        {"step": si, "fresh": f, "exception": exc_, "clients": ncl, "switches": nsw})
                    continue
                nwords = len(mn_.split(" "))
                if got * 8 < 32 * nwords // 3 or nwords != f["len"]:
                    add("C08/too-few-bits-from-os-source",
                        {"clause": "request-size", "api": f["api"], "device_faulted": False, "concurrent": True},
                        {"step": si, "fresh": f, "bytes_obtained_from_device_by_this_caller": got,
                         "entropy_bits_needed": 32 * nwords // 3, "words": nwords, "clients": ncl, "switches": nsw})
                if mn_ in seen:
                    add("C08/fresh-wallets-coincide", {"clause": "no-two-coincide", "api": f["api"], "concurrent": True},
                        {"step": si, "first_seen_at_step": seen[mn_], "fresh": f, "clients": ncl, "switches": nsw,
                         "note": "two callers creating wallets at the same time got the same wallet"})
                seen[mn_] = si
                try:
                    ent_ = cm.entropy_from_mnemonic(mn_, widx)
                except Exception:
                    continue
                v_ = int.from_bytes(ent_, "big")
                w_ = set((v_ >> k) & ((1 << 48) - 1) for k in range(0, len(ent_) * 8 - 47))
                for (otag, ow) in wins_here:
                    if len(w_) > 40 and len(ow) > 40 and (w_ & ow):
                        add("C08/consecutive-wallets-share-entropy",
                            {"clause": "entropy-reused-across-wallets", "api": f["api"], "concurrent": True},
                            {"step": si, "fresh": f, "shared_48_bit_windows": len(w_ & ow), "other_caller": otag,
                             "note": "a run of >= 48 entropy bits of a wallet created concurrently by another caller "
                                     "re-appears in this one", "clients": ncl, "switches": nsw})
                        break
                wins_here.append((tag, w_))
            events.append([si, op, [r_[2] for r_ in results], nsw])
        elif op == "env_replay":
            # adaptive: every environment variable the code was seen to consult during a fresh-wallet request is
            # planted with a truthy value and the requests are repeated under the same oracle
            seen_vars = sorted(k for k in device.env_reads if k not in ("HOME", "COLUMNS", "LINES"))
            stats["env_vars_read_during_requests"] = seen_vars
            if seen_vars and device.fault is None:
                for val in ("1", "true", "0123456789abcdef0123456789abcdef"):
                    for k in seen_vars:
                        device.env_planted[k] = val
                    for L in (12, 24):
                        a = fresh(si, {"api": "mnemonic_bits", "len": L}, tag="s%d.env.%s.%d.a" % (si, val[:2], L))
                        b = fresh(si, {"api": "new_wallet", "len": L, "password": "", "testnet": False},
                                  tag="s%d.env.%s.%d.b" % (si, val[:2], L))
                    device.env_planted.clear()
                stats["env_replays"] = stats.get("env_replays", 0) + 1
        elif op == "sample":
            if device.fault is not None:
                continue
            L, k = st["len"], st["k"]
            nbits = ENT[L]
            ones = 0
            zeros = 0
            f = {"api": st.get("api", "mnemonic_bits"), "len": L, "password": "", "testnet": False}
            ok = 0
            for j in range(k):
                mn = fresh(si, f, tag="s%d.%d" % (si, j))
                if mn is None:
                    continue
                try:
                    v = int.from_bytes(cm.entropy_from_mnemonic(mn, widx), "big")
                except Exception:
                    continue
                ones |= v
                zeros |= ~v
                ok += 1
            stats["samples"] += ok
            if ok >= 48:
                mask = (1 << nbits) - 1
                stuck1 = mask & ~zeros          # bits that were 1 in every sample
                stuck0 = mask & ~ones           # bits that were 0 in every sample
                stats["bits_checked"] += nbits
                if stuck0 or stuck1:
                    pos = [nbits - 1 - i for i in range(nbits) if ((stuck0 | stuck1) >> i) & 1]
                    add("C08/entropy-bit-does-not-vary",
                        {"clause": "every-bit-varies", "msb_stuck": (nbits - 1) in [nbits - 1 - p for p in pos]},
                        {"step": si, "mnemonic_len": L, "samples": ok, "stuck_bit_positions_from_msb": sorted(pos)[:16],
                         "n_stuck": len(pos)})
            events.append([si, op, L, ok, "%x" % (ones & ((1 << nbits) - 1))])
    for k_, v_ in device.fault_hits.items():
        stats["faults_fired"][k_] = v_
    stats["device_requests"] = len(device.requests)
    stats["device_bytes"] = sum(r[0] for r in device.requests)
    stats["request_vias"] = {}
    for r in device.requests:
        stats["request_vias"][r[4]] = stats["request_vias"].get(r[4], 0) + 1
    device.uninstall()
    return {"events": events, "violations": violations, "stats": stats}


# =========================================================================== simulator
class EntropySim(Simulator):
    props = ("C08",)

    def selftest(self, prop):
        # Seam liveness, independent of the library (a library that does not ask the device at all is a
        # C08 VIOLATION, not a dead seam): the stdlib's own consumers must reach the device.
        import secrets
        from sim.entropy import EntropyDevice
        dev = EntropyDevice("probe")
        dev.install(pin_clock=True)
        try:
            random.SystemRandom().getrandbits(128)
            os.urandom(4)
            secrets.token_bytes(8)
            with open("/dev/urandom", "rb") as f:
                f.read(2)
        finally:
            dev.uninstall()
        if dev.bytes_requested() != 16 + 4 + 8 + 2:
            raise core.HarnessError("entropy device seam dead or leaky: %r" % dev.requests)
        plan = {"property": "C08", "seed": 0, "config": {}, "device_key": "probe",
                "steps": [{"op": "fresh", "fresh": {"api": "new_wallet", "len": 12, "password": "", "testnet": False}},
                          {"op": "fresh", "fresh": {"api": "mnemonic_bits", "len": 24}}]}
        out = _run_child(plan)
        if out["stats"]["fresh_ok"] != 2:
            raise core.HarnessError("probe fresh wallets failed: %r" % out["stats"])
        return {"device_bytes_probe": out["stats"]["device_bytes"], "vias": out["stats"]["request_vias"]}

    def generate(self, prop, seed, tier, idx):
        return gen_plan(seed, tier, idx)

    def run(self, prop, plan):
        st, out = core.fork_call(_run_child, (plan,), timeout=300)
        if st != "ok":
            return {"trace": plan, "violations": [], "stats": {}, "digest": None,
                    "harness_error": "run child %s: %s" % (st, out)}
        s = out["stats"]
        sample = {"steps": plan["steps"][:10], "device_key": plan["device_key"]}
        return {"trace": plan, "violations": out["violations"], "stats": s, "digest": core.digest(out["events"]),
                "nontrivial": s["fresh_ok"] >= 2 and (bool(s["faults_fired"]) or bool(s["twins"]) or s["prng_resets"] > 0),
                "harness_error": None, "sample": sample}

    def size(self, prop, plan):
        return len(plan["steps"]) + sum(s.get("k", 0) // 16 for s in plan["steps"])

    def shrink(self, prop, plan):
        for cand in chunked_drops(plan["steps"]):
            p = dict(plan)
            p["steps"] = cand
            yield p
        for i, s in enumerate(plan["steps"]):
            if s["op"] == "twin" and s.get("history"):
                p = dict(plan)
                p["steps"] = plan["steps"][:i] + [dict(s, history=0)] + plan["steps"][i + 1:]
                yield p
            f = s.get("fresh")
            if f and f["api"] != "mnemonic_bits":
                p = dict(plan)
                p["steps"] = plan["steps"][:i] + [dict(s, fresh={"api": "mnemonic_bits", "len": f["len"]})] + plan["steps"][i + 1:]
                yield p

    def secondary_backends(self, prop, tier):
        # interpreter configuration: the same simulator under `python -O` (assert statements stripped)
        return [("ecdsa-O", 120, None)] if tier == "quick" else [("ecdsa-O", None, 60)]

    def quick_runs(self, prop):
        return int(os.environ.get("VERIF_C08_RUNS", "640"))

    def thorough_seconds(self, prop):
        return int(os.environ.get("VERIF_C08_SECONDS", "600"))

    def rule(self, prop):
        return ("one run = a history of 4-16+ steps in one process: fresh-wallet requests through five entry points "
                "(mnemonic_from_entropy_bits, BaseWallet.new_wallet, from_entropy_bits, PaperWallet.new_wallet, CLI `new`) "
                "interleaved with environment events (process-wide PRNG seed/setstate, clock freeze/jump, device epoch "
                "change, device faults (EIO, NotImplementedError, EAGAIN/EINTR once, EPERM, EACCES, ENOENT, ENOSYS, EMFILE) on and off, fork twins with different vs. identical device "
                "streams, PRNG-reset-and-repeat) plus statistical batches of 64 fresh mnemonics per length, bit-sensitivity "
                "tests, and 1-2 CONCURRENT-CREATION steps (2-3 caller threads creating wallets at the same time under the "
                "seeded baton scheduler, device requests booked per caller). Non-trivial = "
                ">=2 successful fresh wallets and at least one fault, twin or PRNG reset; distinct by digest of all "
                "mnemonics/events (device stream is keyed by the run seed).")

    def coverage_extra(self, prop, st):
        return {
            "simulated_time": "clock is pinned and moved only by plan events (%d clock events); logical time = entropy "
                              "device requests: %d" % (st.get("clock_events", 0), st.get("device_requests", 0)),
            "fault_kinds_fired": dict(st.get("faults_fired", {}), **{
                "prng_reset_to_seen_state": st.get("prng_resets", 0),
                "clock_freeze_or_jump": st.get("clock_events", 0),
                "fork_twin_diff_device": st.get("twins", {}).get("diff_device", 0),
                "fork_twin_same_device": st.get("twins", {}).get("same_device", 0),
                "concurrent_creation_steps": st.get("concurrent_steps", 0),
                "context_switches_inside_concurrent_creation": st.get("concurrent_switches", 0),
                "wallets_created_concurrently": st.get("concurrent_wallets", 0)}),
            "fresh_wallets": st.get("fresh_ok", 0),
            "identity_mapping_informational": "%d/%d fresh wallets had entropy == first bytes served by the device"
                                              % (st.get("identity_mapping_held", 0), st.get("identity_mapping_checked", 0)),
        }

    def reach_failures(self, prop, st, tier):
        out = []
        for k in FAULTS:
            if not st.get("faults_fired", {}).get(k):
                out.append("device fault %s never fired" % k)
        for k in ("diff_device", "same_device"):
            if not st.get("twins", {}).get(k):
                out.append("no %s twin" % k)
        for a in APIS:
            if not st.get("apis", {}).get(a):
                out.append("entry point %s never exercised" % a)
        if st.get("bits_checked", 0) == 0:
            out.append("no statistical batch completed")
        return out

    def real_components(self, prop):
        return ["btc_hd_wallet.bip39 / base_wallet / paper_wallet / __main__ (unmodified)", "random.SystemRandom (stdlib, real)",
                "fork() twins (real processes)", "hashlib PBKDF2"]

    def stub_components(self, prop):
        return ["OS entropy source: random._urandom, os.urandom, os.getrandom, open('/dev/urandom') served by a deterministic "
                "device with fault states", "time.time/monotonic/perf_counter/... and os.getpid pinned",
                "the process-wide Mersenne Twister state (set by plan events)",
                "thread choice during concurrent-creation steps: baton scheduler (sim/sched.py), real threads parked and "
                "released one at a time at sys.monitoring LINE/INSTRUCTION events in the package's code"]

    def assumptions(self, prop):
        return ["the repository's word list is used only as a bijection to decode mnemonics (whether it is the official list "
                "is C04, not claimed)", "entropy sources reachable only through the patched names; a C extension calling "
                "getrandom(2) directly would bypass the seam (none is used by the library)",
                "statistical clause uses 64 samples per length: chance failure < 2^-50 per run, and reproducible per seed"]


SIM = EntropySim()
