"""S4 / C20 + C15 -- the CLI under a simulated file system, streams, entropy
device and a hostile neighbour.

main() runs in-process in a forked run child with sys.argv / stdout / stderr
replaced, every file-system call served by the in-memory VFS, and an
environment actor + fault injector scheduled at every VFS / stdout call
boundary of the CLI.  Oracle: the A (refused) / B (served == API result) /
H (help) disjunction, the no-overwrite invariant and the BIP44 row shape for
C20; the secret scan over every channel and public-data equality for C15.
See DESIGN.md section 6.
"""
import io
import os
import sys
import json
import errno
import random
import traceback

from sim import core
from sim.base import Simulator
from sim.ref import bip32 as rb
from sim.ref import cli_model as cm

HARD = 2 ** 31
PW_ALPHABET = "abcXYZ019 _-+=!?@#%&*~^|;:,.<>()[]{}§µÆÐßæðΩжЖ€"
SENTINEL_PRE = b"PRE-EXISTING FILE: must never change\n"
SENTINEL_VICTIM = b"VICTIM FILE reached through a symlink: must never change\n"
SENTINEL_ENV = b"FILE CREATED BY ANOTHER PROCESS: must never change\n"
RACE_ACTIONS = ["file", "dir", "symlink_victim", "symlink_dangling", "rm_parent", "chmod_parent_ro"]
FILE_STATES = ["new", "new_fresh", "new_rel", "new_dotdot", "via_linkdir", "tilde", "existing", "directory", "missing_parent", "ro_parent", "dangling",
               "link2file", "trailing_slash", "empty"]
IO_FAULTS = ["ENOSPC", "EIO_write", "EIO_close", "EMFILE_open", "EACCES_open", "EPIPE_stdout", "EIO_stdout",
             "EPIPE_flush", "interrupt", "crash"]


# environment variables the interpreter / argparse / gettext consult on their own (not the CLI's business)
ENV_IGNORED = {"HOME", "COLUMNS", "LINES", "LANGUAGE", "LC_ALL", "LC_MESSAGES", "LANG", "TMPDIR", "TEMP", "TMP", "TERM",
               "NO_COLOR", "FORCE_COLOR"}


def _words():
    from btc_hd_wallet.bip39_wordlist import word_list
    return list(word_list)


def file_arg(state):
    return {"new": "/simfs/out/wallet.json", "new_fresh": "/simfs/fresh/wallet.json", "new_rel": "wallet.json",
            "via_linkdir": "/simfs/out/linkdir/w4.json", "tilde": "~/w5.json", "new_dotdot": "/simfs/out/dir/../w2.json",
            "existing": "/simfs/out/existing.json", "directory": "/simfs/out/dir",
            "missing_parent": "/simfs/out/nope/w.json", "ro_parent": "/simfs/ro/w.json",
            "dangling": "/simfs/out/dangling", "link2file": "/simfs/out/link2file",
            "trailing_slash": "/simfs/out/w3.json/", "empty": ""}[state]


# =========================================================================== generation
def structured_bytes(rng, n):
    """Random bytes, or - a third of the time - a pattern a numeric round-trip would mangle: leading zero
    bytes / nibbles, all zero, all ones, trailing zeros."""
    x = rng.random()
    if x < 0.67:
        return rng.randbytes(n)
    k = rng.choice([1, 1, 2, 3, n // 2])
    kind = rng.choice(["lead0", "lead0", "lead0nibble", "zero", "ones", "trail0"])
    if kind == "lead0":
        return b"\x00" * k + rng.randbytes(n - k)
    if kind == "lead0nibble":
        b = bytearray(rng.randbytes(n))
        b[0] &= 0x0F
        return bytes(b)
    if kind == "zero":
        return b"\x00" * n
    if kind == "ones":
        return b"\xff" * n
    return rng.randbytes(n - k) + b"\x00" * k


def gen_secret(rng, command, valid=True, words=None):
    """-> (secret dict, argv fragment, is_valid)."""
    if command == "from-mnemonic":
        n = rng.choice([12, 15, 18, 21, 24])
        ent = structured_bytes(rng, n * 4 // 3)
        mn = cm.mnemonic_from_entropy(ent, words)
        if not valid:
            kind = rng.choice(["11", "13", "25", "23", "double_space", "one"])
            ws = mn.split(" ")
            if kind == "double_space":
                mn = " ".join(ws[:5]) + "  " + " ".join(ws[5:])
            elif kind == "one":
                mn = ws[0]
            else:
                k = int(kind)
                mn = " ".join((ws * 3)[:k])
            return {"mnemonic": mn, "invalid": kind}, [mn], False
        kind = rng.choice(["ok", "ok", "ok", "not_in_list", "bad_checksum", "caps", "inner_caps", "unicode"])
        if kind == "not_in_list":
            ws = mn.split(" ")
            ws[rng.randrange(len(ws))] = "zzzzz"
            mn = " ".join(ws)
        elif kind == "bad_checksum":
            ws = mn.split(" ")
            ws[-1] = words[(words.index(ws[-1]) + 1) % 2048]
            mn = " ".join(ws)
        elif kind in ("caps", "inner_caps", "unicode"):
            # the library does not validate or normalise words: the CLI must hand the sentence over unchanged
            ws = mn.split(" ")
            j = rng.randrange(len(ws))
            ws[j] = {"caps": ws[j].upper(), "inner_caps": ws[j].capitalize(),
                     "unicode": ws[j][:1] + "\u0301" + ws[j][1:]}[kind]
            mn = " ".join(ws)
        return {"mnemonic": mn, "variant": kind}, [mn], True
    if command == "from-bip39-seed":
        s = structured_bytes(rng, 64).hex()
        if not valid:
            kind = rng.choice(["-1", "+1", "-2", "+2", "nonhex", "empty"])
            if kind == "nonhex":
                i = rng.randrange(0, 126)
                s = s[:i] + "zz" + s[i + 2:]
            elif kind == "empty":
                s = ""
            elif kind.startswith("-"):
                s = s[:int(kind)]
            else:
                s = s + "ab"[:int(kind)]
            return {"seed_hex": s, "invalid": kind}, [s], False
        if rng.random() < 0.3:
            s = s.upper()
        return {"seed_hex": s}, [s], True
    if command == "from-entropy-hex":
        nb = rng.choice([16, 20, 24, 28, 32])
        s = structured_bytes(rng, nb).hex()
        if not valid:
            kind = rng.choice(["-1", "+1", "-2", "+2", "nonhex", "nb8", "nb36"])
            if kind == "nonhex":
                s = s[:3] + "xy" + s[5:]
            elif kind == "nb8":
                s = rng.randbytes(8).hex()
            elif kind == "nb36":
                s = rng.randbytes(36).hex()
            elif kind.startswith("-"):
                s = s[:int(kind)]
            else:
                s = s + "cd"[:int(kind)]
            return {"entropy_hex": s, "invalid": kind}, [s], False
        if rng.random() < 0.3:
            s = s.upper()
        return {"entropy_hex": s}, [s], True
    if command == "from-master-xprv":
        node = rb.master(rng.randbytes(32))
        ver = rng.choice(["xprv", "xprv", "yprv", "zprv", "tprv", "uprv", "vprv"])
        v = rb.VERSIONS[ver]
        node.testnet = v[2]
        key = node.xprv(v[0])
        if not valid:
            kind = rng.choice(["110", "112", "public", "bad_checksum", "depth3_pub"])
            if kind == "110":
                key = key[:-1]
            elif kind == "112":
                key = key + "1"
            elif kind == "public":
                key = node.xpub(rb.VERSIONS[ver[0] + "pub"][0])
            elif kind == "depth3_pub":
                key = rb.derive(node, [HARD + 44, HARD, HARD]).xpub(rb.VERSIONS[ver[0] + "pub"][0])
            else:
                key = key[:-1] + ("2" if key[-1] != "2" else "3")
            return {"xkey": key, "invalid": kind}, [key], False
        if rng.random() < 0.25:
            d3 = rb.derive(node, [HARD + 84, HARD + (1 if v[2] else 0), HARD + 5])
            key = d3.xprv(v[0])
            return {"xkey": key, "variant": "depth3", "testnet": v[2]}, [key], True
        return {"xkey": key, "testnet": v[2]}, [key], True
    if command == "new":
        if not valid:
            kind = rng.choice(["13", "0", "junk"])
            return {"mnemonic_len": kind, "invalid": kind}, ["--mnemonic-len", kind], False
        n = rng.choice([None, 12, 15, 18, 21, 24])
        return {"mnemonic_len": n}, ([] if n is None else ["--mnemonic-len", str(n)]), True
    raise ValueError(command)


def gen_password(rng):
    """>= 10 characters; BIP39 passphrases are significant byte for byte, so edge whitespace, inner double
    blanks, tabs and newlines are part of the alphabet (the CLI must hand them to the library unchanged)."""
    core_ = "".join(rng.choice(PW_ALPHABET) for _ in range(rng.randint(10, 18))).strip() or "pässwörd-0123"
    x = rng.random()
    if x > 0.88:
        # short passwords whose text also occurs inside public data (paths, addresses, keys): a filter or a
        # "redaction" that works on substrings must not touch those
        if rng.random() < 0.35:
            # ... or that is spelled EXACTLY like a whole public string of the output (paths do not depend on the
            # secret, so they can be named in advance): an equality-based scrub must not touch those either
            return rng.choice(["m/44'/0'/0'", "m/49'/0'/0'", "m/84'/0'/0'", "m/44'/1'/0'", "m/49'/1'/0'", "m/84'/1'/0'",
                               "m/44'/0'/0'/0/0", "m/49'/0'/0'/0/0", "m/84'/0'/0'/0/0", "m/84'/1'/0'/0/0",
                               "m/44'/0'/0'/0/1", "m/84'/0'/0'/0/1", "m/44'/0'/1'", "m/84'/0'/1'"])
        return rng.choice(["1", "0", "a", "02", "03", "bc1q", "tb1q", "m/", "44'", "xpub", "'", "/0/", "e", "pub"])
    if x < 0.15:
        return core_ + rng.choice([" ", "  ", "\t", "\n"])
    if x < 0.30:
        return rng.choice([" ", "\t", "\n "]) + core_
    if x < 0.36:
        return core_[:5] + rng.choice(["  ", "\t", "\n"]) + core_[5:]
    if x < 0.42:
        return core_.upper() if rng.random() < 0.5 else core_ + "\u0301"      # case / combining mark
    return core_


# run index -> number of rows. Pure-Python derivation costs ~25 ms per row (CLI + API twin), so the quick tier stops
# at 300 rows; the thorough tier goes to 1100 (a hidden cap at 1000 rows is caught only there).
LONG_INTERVALS_QUICK = {0: 300, 2: 90, 4: 40}
LONG_INTERVALS_THOROUGH = {0: 1100, 2: 400, 4: 150, 6: 70, 8: 25}


def gen_plan(prop, seed, tier, idx):
    from btc_hd_wallet.bip39_wordlist import word_list
    words = list(word_list)
    rng = random.Random(seed)
    batch = ["argv", "race", "argv", "io"][idx % 4]
    only_valid = batch != "argv"
    ladder = LONG_INTERVALS_THOROUGH if tier == "thorough" else LONG_INTERVALS_QUICK
    if prop == "C20" and idx in ladder:
        only_valid = True            # long-interval runs: every other component valid
    paranoia_only = prop == "C15"
    if paranoia_only:
        only_valid = rng.random() < 0.85 or only_valid
    req = {}
    argv = []
    invalid = []
    # ---- global options
    command = rng.choice(["new", "from-master-xprv", "from-mnemonic", "from-bip39-seed", "from-entropy-hex"])
    use_file = True if batch == "race" else rng.random() < 0.45
    if batch == "io":
        fam = IO_FAULTS[(idx // 4) % len(IO_FAULTS)]
        if fam in ("ENOSPC", "EIO_write", "EIO_close", "EMFILE_open", "EACCES_open"):
            use_file = True
        elif fam in ("EPIPE_stdout", "EIO_stdout", "EPIPE_flush"):
            use_file = False
    fstate = None
    if use_file:
        if batch == "race":
            # the race matrix is walked systematically (see _finish): the path state follows the action so that
            # every action can take effect (an empty parent for rm_parent) and every new-file spelling meets every action
            k_ = idx // 4
            act = RACE_ACTIONS[k_ % len(RACE_ACTIONS)]
            states = ["new", "new_fresh", "new_rel", "new_dotdot", "via_linkdir", "new_fresh", "dangling"]
            fstate = "new_fresh" if act == "rm_parent" else states[(k_ // len(RACE_ACTIONS)) % len(states)]
        elif only_valid:
            fstate = rng.choice(["new", "new_fresh", "new_rel", "new_dotdot", "via_linkdir"])
        else:
            fstate = rng.choice(FILE_STATES)
        if fstate not in ("new", "new_fresh", "new_rel", "new_dotdot", "via_linkdir", "dangling"):
            invalid.append("file:" + fstate)
        argv += [rng.choice(["-f", "--file"]), file_arg(fstate)]
    req["file_state"] = fstate
    req["testnet"] = rng.random() < 0.4
    if req["testnet"]:
        argv.append("--testnet")
    req["paranoia"] = paranoia_only or rng.random() < 0.35
    if req["paranoia"]:
        argv.append("--paranoia")
    acct = None
    if rng.random() < 0.6:
        if only_valid or rng.random() < 0.6:
            acct = str(rng.choice([0, 1, 2, 19, HARD - 2, rng.randrange(HARD - 1)]))
        else:
            acct = rng.choice(["-1", str(HARD - 1), str(HARD), str(2 ** 32), "junk", "1.5", ""])
            invalid.append("account:" + acct)
        argv += ["--account", acct]
    req["account"] = acct
    iv = None
    if rng.random() < 0.85:
        if only_valid or rng.random() < 0.6:
            a = rng.choice([0, 0, 1, 5, 19, HARD - 3, rng.randrange(HARD - 4)])
            b = a + rng.randint(0, 3)
            if rng.random() < 0.08:
                b = max(0, a - rng.randint(1, 3))          # END < START: empty interval
            if not only_valid and rng.random() < 0.3:
                # around the hardened boundary and the top of the range
                a = rng.choice([HARD - 1, HARD - 2, HARD, 2 ** 32 - 4, 2 ** 32 - 3])
                b = min(a + rng.randint(1, 3), 2 ** 32 - 2)
            iv = [str(a), str(b)]
        else:
            a = rng.choice(["-1", "junk", str(2 ** 32 - 1), str(2 ** 32), "0"])
            b = rng.choice(["-1", "junk", str(2 ** 32 - 1), str(2 ** 32), "3", ""])
            iv = [a, b]
            invalid.append("interval:%s,%s" % (a, b))
        argv += ["--interval"] + iv
    long_iv = None
    LONG_INTERVALS = ladder
    if prop == "C20" and batch == "argv" and idx in LONG_INTERVALS and not invalid:
        # the ladder of long intervals: a hidden cap on the number of rows must not go unnoticed
        a = rng.choice([0, 0, 7])
        long_iv = [str(a), str(a + LONG_INTERVALS[idx])]
        if "--interval" in argv:
            i_ = argv.index("--interval")
            argv[i_ + 1:i_ + 3] = long_iv
        else:
            argv += ["--interval"] + long_iv
        iv = long_iv
    req["interval"] = iv
    # ---- help / no command
    req["help"] = None
    if long_iv is not None:
        only_valid = True
    if not only_valid and rng.random() < 0.06:
        where = rng.choice(["global", "sub", "none"])
        req["help"] = where
        if where == "global":
            argv.insert(rng.randrange(len(argv) + 1) if not argv else 0, rng.choice(["-h", "--help"]))
            argv.append(command) if rng.random() < 0.5 else None
        elif where == "sub":
            argv += [command, rng.choice(["-h", "--help"])]
        req["command"] = None if where != "sub" else command
        return _finish(prop, seed, batch, req, argv, invalid, rng, idx)
    # ---- sub command
    ok_secret = only_valid or rng.random() < 0.7
    secret, frag, valid_secret = gen_secret(rng, command, ok_secret, words)
    if not valid_secret:
        invalid.append("secret:" + str(secret.get("invalid")))
    req["command"] = command
    req["secret"] = secret
    argv.append(command)
    pw = None
    if command in ("new", "from-mnemonic", "from-entropy-hex") and rng.random() < 0.5:
        pw = gen_password(rng)
        frag = (["--password", pw] + frag) if rng.random() < 0.5 else (frag + ["--password", pw])
    req["password"] = pw
    argv += frag
    if not only_valid and rng.random() < 0.04:
        argv.append("--bogus-option")
        invalid.append("bogus-option")
    return _finish(prop, seed, batch, req, argv, invalid, rng, idx)


LONG_OPTS = {"--testnet": 0, "--paranoia": 0, "--account": 1, "--interval": 2, "--file": 1, "--password": 1,
             "--mnemonic-len": 1}


def respell(argv, rng):
    """Semantics-preserving re-spellings argparse accepts: unambiguous abbreviations of long options,
    --opt=value, -fVALUE, and an earlier occurrence of a single-valued option that the later one overrides."""
    out = []
    i = 0
    done = []
    while i < len(argv):
        a = argv[i]
        n = LONG_OPTS.get(a)
        if a == "-f" and i + 1 < len(argv) and rng.random() < 0.2 and argv[i + 1] and not argv[i + 1].startswith("-"):
            out.append("-f" + argv[i + 1])
            done.append("attached-short")
            i += 2
            continue
        if n is None:
            out.append(a)
            i += 1
            continue
        vals = argv[i + 1:i + 1 + n]
        name = a
        if rng.random() < 0.25:
            name = a[:rng.randint(3, len(a) - 1)]          # "--t", "--par", "--acc", "--mnemonic-l", ...
            done.append("abbrev")
        if n == 1 and len(vals) == 1 and rng.random() < 0.25:
            if a in ("--account",) and rng.random() < 0.3:
                out += [name, str(rng.choice([0, 3, 77]))]   # overridden by the later occurrence
                done.append("repeated")
            out.append(name + "=" + vals[0])
            done.append("equals")
        else:
            out += [name] + vals
        i += 1 + n
    return out, done


def _finish(prop, seed, batch, req, argv, invalid, rng, idx=0):
    if rng.random() < 0.5:
        argv, spell = respell(argv, rng)
        req = dict(req, respelled=spell)
    faults = []
    k = idx // 4                     # position inside the batch: the fault matrix is walked systematically
    if batch == "race":
        faults.append({"kind": "race", "gap": (k // len(RACE_ACTIONS)) % 9, "action": RACE_ACTIONS[k % len(RACE_ACTIONS)]})
        if rng.random() < 0.2:
            faults.append({"kind": "race", "gap": rng.randrange(0, 9), "action": rng.choice(RACE_ACTIONS)})
    elif batch == "io":
        f = IO_FAULTS[k % len(IO_FAULTS)]
        if req.get("file_state") is None and f in ("ENOSPC", "EIO_write", "EIO_close", "EMFILE_open", "EACCES_open"):
            f = rng.choice(["EPIPE_stdout", "EPIPE_stdout", "EIO_stdout", "EPIPE_flush", "interrupt", "crash"])
        if req.get("file_state") is not None and f in ("EPIPE_stdout", "EIO_stdout", "EPIPE_flush"):
            f = rng.choice(["ENOSPC", "EIO_write", "EIO_close", "EMFILE_open", "EACCES_open", "interrupt", "crash", "crash"])
        ent = {"kind": "io", "fault": f}
        if f == "ENOSPC":
            ent["free"] = rng.choice([0, 1, 100, 1000, 5000])
        if f in ("EPIPE_stdout", "EIO_stdout"):
            ent["nth"] = rng.choice([0, 1])
        if f in ("interrupt", "crash"):
            ent["gap"] = rng.randrange(0, 9)
        faults.append(ent)
    return {"property": prop, "seed": seed, "config": {"batch": batch}, "req": req, "argv": argv,
            "expected_invalid": invalid, "faults": faults, "device_key": "dev-%d" % seed,
            "tty": rng.random() < 0.3}          # stdout/stderr claim to be a terminal in 30 % of the runs


# =========================================================================== execution
class _Stream(io.TextIOBase):
    def __init__(self, name, inj):
        super().__init__()
        self.name_ = name
        self.chunks = []
        self.inj = inj
        self.writes = 0
        self.flushes = 0
        self.redirected = None       # set when the CLI dup2()s another descriptor over this stream

    def fileno(self):
        from sim import vfs as _v
        return _v.FD_STDOUT if self.name_ == "stdout" else _v.FD_STDERR

    def writable(self):
        return True

    @property
    def encoding(self):
        return "utf-8"

    def isatty(self):
        return bool(getattr(self, "tty", False))

    def write(self, s):
        if not isinstance(s, str):
            raise TypeError("write() argument must be str")
        if self.redirected is not None:
            if self.redirected == "closed":
                raise ValueError("I/O operation on closed file.")
            return len(s)                # goes to whatever was dup2()ed over the stream, not to the reader
        if self.inj is not None:
            self.inj.stream_write(self, s)
        self.chunks.append(s)
        self.writes += 1
        return len(s)

    def flush(self):
        if self.redirected is None and self.inj is not None:
            self.inj.stream_flush(self)
        self.flushes += 1
        return None

    def getvalue(self):
        return "".join(self.chunks)


class _Injector:
    """Environment actor + I/O fault injector scheduled at every call boundary of the CLI."""

    def __init__(self, plan, vfs, target):
        self.plan = plan
        self.vfs = vfs
        self.target = target
        self.gap = 0
        self.fired = []
        self.gaps_seen = []
        self.call_counts = {}

    def _env_action(self, action):
        v = self.vfs
        prev = v.actor
        v.actor = "env"
        try:
            tgt = self.target or "/simfs/out/wallet.json"
            norm = tgt if tgt.startswith("/") else "/simfs/cwd/" + tgt
            norm = norm.rstrip("/") or "/"
            parent = os.path.dirname(norm)
            try:
                if action == "file":
                    d, name, node, _ = v._walk(norm, follow=False)
                    if node is None:
                        v.put_file(norm, SENTINEL_ENV, by="env")
                        return True
                elif action == "dir":
                    d, name, node, _ = v._walk(norm, follow=False)
                    if node is None:
                        v.mkdir_p(norm, by="env")
                        return True
                elif action == "symlink_victim":
                    d, name, node, _ = v._walk(norm, follow=False)
                    if node is None:
                        v.put_link(norm, "/simfs/victim/secret.txt", by="env")
                        return True
                elif action == "symlink_dangling":
                    d, name, node, _ = v._walk(norm, follow=False)
                    if node is None:
                        v.put_link(norm, "/simfs/out/elsewhere.json", by="env")
                        return True
                elif action == "rm_parent":
                    d, name, node, _ = v._walk(parent, follow=False)
                    # rmdir semantics: only an EMPTY directory can disappear under the CLI
                    if node is not None and node.kind == "dir" and not node.entries and d is not None and \
                            parent not in ("/simfs", "/simfs/cwd"):
                        del d.entries[name]
                        return True
                elif action == "chmod_parent_ro":
                    d, name, node, _ = v._walk(parent, follow=True)
                    if node is not None and node.kind == "dir":
                        node.mode = 0o555
                        return True
            except OSError:
                return False
            return False
        finally:
            v.actor = prev

    def boundary(self, name, path):
        g = self.gap
        self.gap += 1
        self.gaps_seen.append(name)
        n = self.call_counts.get(name, 0)
        self.call_counts[name] = n + 1
        for f in self.plan["faults"]:
            if f["kind"] == "race" and f["gap"] == g:
                done = self._env_action(f["action"])
                self.fired.append({"kind": "race", "action": f["action"], "gap": g, "before": name, "effective": done})
            elif f["kind"] == "io":
                ft = f["fault"]
                if ft == "interrupt" and f.get("gap") == g:
                    self.fired.append({"kind": "interrupt", "gap": g, "before": name})
                    raise KeyboardInterrupt()
                if ft == "crash" and f.get("gap") == g and getattr(self, "crash_hook", None) is not None:
                    self.fired.append({"kind": "crash", "gap": g, "before": name})
                    self.crash_hook()
                if ft == "EIO_write" and name == "write" and n == 0:
                    self.fired.append({"kind": "io", "fault": ft, "before": name})
                    raise OSError(errno.EIO, "Input/output error (simulated)", str(path))
                if ft == "EIO_close" and name == "close" and n == 0:
                    self.fired.append({"kind": "io", "fault": ft, "before": name})
                    raise OSError(errno.EIO, "Input/output error (simulated)", str(path))
                if ft == "EMFILE_open" and name == "open" and n == 0:
                    self.fired.append({"kind": "io", "fault": ft, "before": name})
                    raise OSError(errno.EMFILE, "Too many open files (simulated)", str(path))
                if ft == "EACCES_open" and name == "open" and n == 0:
                    self.fired.append({"kind": "io", "fault": ft, "before": name})
                    raise PermissionError(errno.EACCES, "Permission denied (simulated)", str(path))

    def stream_flush(self, stream):
        if stream.name_ != "stdout":
            return
        self.boundary("stdout.flush", None)
        for f in self.plan["faults"]:
            if f["kind"] == "io" and f["fault"] == "EPIPE_flush" and stream.flushes == 0:
                self.fired.append({"kind": "io", "fault": "EPIPE_flush", "before": "stdout.flush"})
                raise BrokenPipeError(errno.EPIPE, "Broken pipe (simulated)")

    def stream_write(self, stream, s):
        if stream.name_ != "stdout":
            return
        self.boundary("stdout.write", None)
        n = stream.writes
        for f in self.plan["faults"]:
            if f["kind"] == "io" and f["fault"] in ("EPIPE_stdout", "EIO_stdout") and f.get("nth") == n:
                self.fired.append({"kind": "io", "fault": f["fault"], "before": "stdout.write#%d" % n})
                if f["fault"] == "EPIPE_stdout":
                    raise BrokenPipeError(errno.EPIPE, "Broken pipe (simulated)")
                raise OSError(errno.EIO, "Input/output error (simulated)")


def build_fs(vfs):
    vfs.actor = "pre"
    vfs.mkdir_p("/simfs/out")
    vfs.mkdir_p("/simfs/out/dir")
    vfs.mkdir_p("/simfs/fresh")
    vfs.mkdir_p("/simfs/victim")
    vfs.mkdir_p("/simfs/ro", mode=0o555)
    vfs.put_file("/simfs/out/existing.json", SENTINEL_PRE)
    vfs.put_file("/simfs/victim/secret.txt", SENTINEL_VICTIM)
    vfs.put_link("/simfs/out/dangling", "/simfs/out/nowhere.json")
    vfs.put_link("/simfs/out/link2file", "/simfs/victim/secret.txt")
    vfs.mkdir_p("/simfs/realdir")
    vfs.put_link("/simfs/out/linkdir", "/simfs/realdir")
    vfs.mkdir_p("/simfs/home")


def run_cli(argv, vfs, inj, device):
    """Run main() in-process; map the outcome to the status the interpreter would return."""
    import btc_hd_wallet.__main__ as cli
    out, err = _Stream("stdout", inj), _Stream("stderr", None)
    out.tty = err.tty = bool(inj.plan.get("tty"))
    from sim import vfs as _v
    vfs.std_streams = {_v.FD_STDOUT: out, _v.FD_STDERR: err}
    saved = (sys.argv, sys.stdout, sys.stderr)
    saved_home = os.environ.get("HOME")
    os.environ["HOME"] = "/simfs/home"           # a `~` expansion must stay inside the simulated file system
    sys.argv = [cli.__file__] + list(argv)      # what `python -m btc_hd_wallet` puts in argv[0]
    sys.stdout, sys.stderr = out, err
    vfs.actor = "cli"
    vfs.active = True
    prev_tag = device.tag
    device.tag = device.tag or "cli"
    status = None
    exc = None
    import atexit
    exit_funcs = []
    real_register, real_unregister = atexit.register, atexit.unregister

    def fake_register(func, *a, **kw):
        exit_funcs.append((func, a, kw))
        return func

    def fake_unregister(func):
        exit_funcs[:] = [e for e in exit_funcs if e[0] is not func]
    atexit.register, atexit.unregister = fake_register, fake_unregister
    try:
        try:
            # exactly what `python -m btc_hd_wallet` does: execute the package's __main__.py as module "__main__"
            # (so a `sys.exit(main())` guard, or anything else at module level, behaves as in a real process)
            import runpy
            runpy.run_module("btc_hd_wallet", run_name="__main__", alter_sys=True)
            status = 0
        except SystemExit as e:
            c = e.code
            if c is None:
                status = 0
            elif isinstance(c, int):
                status = c
            else:
                err.write(str(c) + "\n")
                status = 1
        except KeyboardInterrupt:
            err.write("KeyboardInterrupt\n")
            status = 130
            exc = "KeyboardInterrupt"
        except BaseException as e:
            err.write("".join(traceback.format_exception_only(type(e), e)))
            status = 1
            exc = type(e).__name__
        # "interpreter exit" of the simulated process: handlers the CLI registered run now (LIFO), still inside the
        # simulated file system and streams; an exception in a handler is printed, the status does not change
        if exc != "KeyboardInterrupt" or True:
            for func, a, kw in reversed(exit_funcs):
                try:
                    func(*a, **kw)
                except SystemExit:
                    pass
                except BaseException as e:
                    err.write("Exception ignored in atexit callback: %s\n" % type(e).__name__)
    finally:
        atexit.register, atexit.unregister = real_register, real_unregister
        sys.argv, sys.stdout, sys.stderr = saved
        if saved_home is None:
            os.environ.pop("HOME", None)
        else:
            os.environ["HOME"] = saved_home
        vfs.actor = "post"
        vfs.active = False
        device.tag = prev_tag
    return status, out.getvalue(), err.getvalue(), exc


def api_twin(req, device, device_key, want_wallet=False):
    """The library API result for the same source secret, network, account and interval (unfiltered dict)."""
    from btc_hd_wallet.paper_wallet import PaperWallet
    cmd = req["command"]
    account = int(req["account"]) if req["account"] is not None else 0
    interval = [int(x) for x in req["interval"]] if req["interval"] is not None else [0, 20]
    pw = req.get("password") or ""
    s = req["secret"]
    if cmd == "new":
        device.reseed(device_key)
        device.tag = "twin"
        n = s["mnemonic_len"]
        w = PaperWallet.new_wallet(mnemonic_length=24 if n is None else int(n), password=pw, testnet=req["testnet"])
    elif cmd == "from-mnemonic":
        w = PaperWallet.from_mnemonic(mnemonic=s["mnemonic"], password=pw, testnet=req["testnet"])
    elif cmd == "from-bip39-seed":
        w = PaperWallet.from_bip39_seed_hex(bip39_seed=s["seed_hex"], testnet=req["testnet"])
    elif cmd == "from-entropy-hex":
        w = PaperWallet.from_entropy_hex(entropy_hex=s["entropy_hex"], password=pw, testnet=req["testnet"])
    elif cmd == "from-master-xprv":
        w = PaperWallet.from_extended_key(extended_key=s["xkey"])
    else:
        raise ValueError("no command")
    full = w.generate(account=account, interval=interval)
    if want_wallet:
        return full, w.testnet, account, interval, w
    return full, w.testnet, account, interval


def _run_child(plan):
    from sim.vfs import VFS
    from sim.entropy import EntropyDevice
    import btc_hd_wallet.__main__ as cli
    prop = plan["property"]
    req = plan["req"]
    words = _words()
    words_set = set(words)
    vfs = VFS()
    build_fs(vfs)
    for f in plan["faults"]:
        if f["kind"] == "io" and f["fault"] == "ENOSPC":
            vfs.free = f["free"]
    device = EntropyDevice(plan["device_key"])
    target = file_arg(req["file_state"]) if req.get("file_state") else None
    inj = _Injector(plan, vfs, target)
    # BYSTANDERS: in half of the runs other people's files sit next to the requested path under the names programs
    # conventionally use for scratch / backup / lock files of that path. "An existing file is never overwritten"
    # covers them too: a fixed scratch name derived from the target must not destroy what is already there.
    bystanders = []
    if target is not None and plan["seed"] % 2 == 0 and req.get("file_state") in ("new", "new_dotdot", "via_linkdir",
                                                                                 "dangling"):
        vfs.actor = "pre"
        dn, bn = os.path.split(target)
        for nm in (target + ".tmp", target + "~", target + ".bak", target + ".new", target + ".part", target + ".lock",
                   target + ".swp", target + ".old", target + ".orig", target + ".temp", target + ".tmp~",
                   os.path.join(dn, "." + bn + ".tmp"), os.path.join(dn, "." + bn + ".swp"),
                   os.path.join(dn, "." + bn + ".lock"), os.path.join(dn, "." + bn), os.path.join(dn, "#" + bn + "#"),
                   os.path.join(dn, bn.rsplit(".", 1)[0] + ".tmp"), os.path.join(dn, "tmp"), os.path.join(dn, "temp")):
            try:
                vfs.put_file(nm, SENTINEL_PRE)
                bystanders.append(nm)
            except OSError:
                pass
    vfs.on_call = inj.boundary
    f0 = vfs.snapshot()
    vfs.install()
    device.install(pin_clock=True)
    device.env_planted.update(plan.get("env") or {})       # adaptive environment replay (see CliSim.run)
    try:
        crash_plan = any(f["kind"] == "io" and f["fault"] == "crash" for f in plan["faults"])

        def cli_phase(on_crash=None):
            inj.crash_hook = on_crash
            status_, out_, err_, exc_ = run_cli(plan["argv"], vfs, inj, device)
            return collect(status_, out_, err_, exc_, False)

        def collect(status_, out_, err_, exc_, crashed):
            enospc_hit = any(c[0] == "write" and isinstance(c[2], int) for c in vfs.log) and vfs.free == 0 and \
                any(f["kind"] == "io" and f["fault"] == "ENOSPC" for f in plan["faults"])
            if enospc_hit and status_ != 0:
                inj.fired.append({"kind": "io", "fault": "ENOSPC", "before": "write"})
            vfs.on_call = None
            f1_ = vfs.snapshot()
            served_ = None
            if status_ == 0:
                if target is not None:
                    try:
                        d, name, node, _ = vfs._walk(target, follow=True)
                        served_ = node.data.decode("utf-8") if node is not None and node.kind == "file" else None
                    except OSError:
                        served_ = None
                else:
                    served_ = out_
            return {"status": status_, "out": out_, "err": err_, "exc": exc_, "crashed": crashed,
                    "new_files": {p_: v[3].hex() for p_, v in f1_.items() if v[0] == "file" and v[2] == "cli"},
                    "new_other": [p_ for p_, v in f1_.items() if v[0] != "file" and v[2] == "cli"],
                    "clobbered": list(vfs.violations), "fired": inj.fired, "gaps": inj.gaps_seen, "log": vfs.log,
                    "served_text": served_, "n_requests": len(device.requests)}

        if crash_plan:
            # the process is KILLED at boundary g: nothing after it runs, not even finally-blocks. The CLI therefore
            # runs in a forked grandchild that ships the file system / stream state to us and _exit()s at that point.
            r_, w_ = os.pipe()
            pid = os.fork()
            if pid == 0:
                try:
                    os.close(r_)

                    def ship(doc):
                        data = core.canon_json(doc).encode()
                        off = 0
                        while off < len(data):
                            off += os.write(w_, data[off:off + 65536])

                    def on_crash():
                        ship(collect(137, sys.stdout.getvalue() if hasattr(sys.stdout, "getvalue") else "",
                                     sys.stderr.getvalue() if hasattr(sys.stderr, "getvalue") else "", "killed", True))
                        os._exit(137)
                    ship(cli_phase(on_crash))
                finally:
                    os._exit(0)
            os.close(w_)
            buf = b""
            while True:
                b_ = os.read(r_, 1 << 16)
                if not b_:
                    break
                buf += b_
            os.close(r_)
            os.waitpid(pid, 0)
            ph = json.loads(buf.decode()) if buf else None
            if ph is None:
                raise core.HarnessError("crash-mode grandchild returned nothing")
        else:
            ph = cli_phase()
        status, out, err, exc = ph["status"], ph["out"], ph["err"], ph["exc"]
        inj.fired, inj.gaps_seen, vfs.log, vfs.violations = ph["fired"], ph["gaps"], ph["log"], ph["clobbered"]
        n_requests = ph["n_requests"]
        new_files = {p_: bytes.fromhex(h_) for p_, h_ in ph["new_files"].items()}
        new_other = ph["new_other"]
        clobbered = ph["clobbered"]
        io_fault = any(x["kind"] in ("io", "interrupt", "crash") for x in inj.fired)
        # a neighbour that takes the directory's write permission (or the directory) away mid-run makes the command's
        # own later calls fail: from the command's point of view that IS an I/O error, and the same narrow
        # relaxation applies (it may fail and leave behind a prefix of the right data, never anything else)
        io_fault = io_fault or any(x["kind"] == "race" and x.get("effective") and
                                   x.get("action") in ("chmod_parent_ro", "rm_parent") for x in inj.fired)
        served_text = ph["served_text"]
        # ---- API twin (only when something has to be compared)
        twin = None
        twin_exc = None
        need_twin = req.get("command") is not None and req.get("help") is None and \
            (status == 0 or new_files or out.strip() or
             (prop == "C15" and req["paranoia"] and not plan["expected_invalid"]))
        if need_twin:
            try:
                full, tnet, account, interval, tw = api_twin(req, device, plan["device_key"], want_wallet=True)
                twin = {"full": full, "testnet": tnet, "account": account, "interval": interval}
            except Exception as e:
                twin_exc = type(e).__name__
        # ---- C15, API level: a HISTORY of exports to one path on the simulated disk. The filtered data is exported
        # (library default: overwrite) over what an earlier, longer export or another program left there; what the
        # path holds afterwards is "the paranoia-filtered output" and is judged like any other channel.
        api_hist = None
        if prop == "C15" and twin is not None and req["paranoia"] and not crash_plan and plan["seed"] % 3 == 0:
            hp = "/simfs/out/api-export-%d.json" % (plan["seed"] % 7)
            pre = ["full_export_first", "longer_foreign_file", "fresh", "full_export_first"][(plan["seed"] // 3) % 4]
            api_hist = {"path": hp, "pre": pre, "exc": None, "content": None}
            try:
                if pre == "full_export_first":
                    tw.export_wallet(file_path=hp, data=twin["full"])
                elif pre == "longer_foreign_file":
                    vfs.put_file(hp, (SENTINEL_PRE * 4000)[:len(json.dumps(twin["full"], indent=4)) + 977])
                tw.export_wallet(file_path=hp, data=cli.paranoia_mode(data=twin["full"]))
            except Exception as e:
                api_hist["exc"] = type(e).__name__
            try:
                d_, name_, node_, _ = vfs._walk(hp, follow=True)
                api_hist["content"] = node_.data.decode("utf-8", "replace") if node_ is not None and node_.kind == "file" else None
            except OSError:
                pass
    finally:
        device.uninstall()
        vfs.uninstall()
    violations = []
    stats_extra = {}

    def add(cls, sig, detail):
        if not any(v["class"] == cls for v in violations):
            violations.append({"class": cls, "signature": sig, "detail": detail})
    out_kinds = sorted(cm.wallet_data_kinds(out, words_set))
    J = None
    Jpar = None
    if twin is not None:
        J = json.dumps(twin["full"], indent=4)
        if req["paranoia"]:
            Jpar = json.dumps(cli.paranoia_mode(data=twin["full"]), indent=4)
    Jx = Jpar if req.get("paranoia") else J
    ctx = {"argv": plan["argv"], "status": status, "exception": exc, "stderr_tail": err[-300:],
           "faults_fired": inj.fired, "file_state": req.get("file_state")}
    if prop == "C20":
        # ---- always: an existing file is never overwritten
        for c in clobbered:
            add("C20/overwrite", {"clause": "existing-file-overwritten", "owner": c["owner"], "how": c["what"],
                                  "race": bool([x for x in inj.fired if x["kind"] == "race" and x["effective"]])},
                dict(ctx, clobbered=c, calls=vfs.log[-8:]))
        if req.get("help") in ("global", "sub"):
            # H (help shown, status 0) or A (another argument was refused first): never wallet data, never a file
            bad = out_kinds or new_files or new_other or (status == 0 and "usage" not in out.lower())
            if bad:
                add("C20/help", {"clause": "help"}, dict(ctx, stdout_kinds=out_kinds, new_files=sorted(new_files)))
        elif status != 0:
            # ---- A: refused
            if out_kinds:
                ok = io_fault and Jx is not None and is_partial_of(out, Jx)
                if not ok:
                    add("C20/refused-but-stdout-data", {"clause": "A-stdout", "io_fault": io_fault},
                        dict(ctx, stdout_kinds=out_kinds, stdout_head=out[:200]))
            for p, data in sorted(new_files.items()):
                ok = io_fault and Jx is not None and is_partial_of(data.decode("utf-8", "replace"), Jx)
                if not ok:
                    add("C20/refused-but-file", {"clause": "A-file", "io_fault": io_fault},
                        dict(ctx, path=p, content_head=data[:120].decode("utf-8", "replace")))
            if new_other:
                add("C20/refused-but-file", {"clause": "A-file", "io_fault": io_fault}, dict(ctx, created=new_other))
        else:
            # ---- B: served
            if req.get("command") is None:
                add("C20/served-without-command", {"clause": "B-no-command"}, dict(ctx, stdout_head=out[:200]))
            elif twin is None:
                add("C20/served-but-api-refuses", {"clause": "B-api-refuses", "api_exc": twin_exc},
                    dict(ctx, api_exception=twin_exc, stdout_head=out[:200]))
            else:
                if target is None:
                    if not same_json(out, Jx):
                        add("C20/served-mismatch", {"clause": "B-stdout", "paranoia": req["paranoia"]},
                            dict(ctx, diff=_first_diff(out, Jx + os.linesep)))
                    if new_files:
                        # informational: the statement asks for the right JSON on the requested channel; it does not
                        # forbid a further file (C15 scans every new file for secrets in paranoia mode)
                        stats_extra["served_with_extra_file"] = 1
                else:
                    if served_text is None or not same_json(served_text, Jx):
                        add("C20/served-mismatch", {"clause": "B-file", "paranoia": req["paranoia"]},
                            dict(ctx, diff=_first_diff(served_text or "", Jx), new_files=sorted(new_files)))
                    if out_kinds:
                        add("C20/served-file-and-stdout", {"clause": "B-stdout-data-with-file"},
                            dict(ctx, stdout_kinds=out_kinds))
                    if len(new_files) > 1:
                        stats_extra["served_with_extra_file"] = 1
                # row shape of what was served
                try:
                    doc = json.loads(served_text or "")
                except ValueError:
                    doc = None
                if isinstance(doc, dict):
                    defects = [d_ for d_ in cm.row_shape_defects(doc, None, None, None)
                               if d_ in ("address-index-hardened", "purpose-not-hardened", "coin-not-hardened",
                                         "account-not-hardened", "chain-hardened", "row-path-malformed")]
                    for dft in defects:
                        add("C20/row-shape/%s%s" % (dft, "/requested-end-above-2^31" if (
                                dft == "address-index-hardened" and twin["interval"][1] > HARD) else ""),
                            {"clause": "row-shape", "defect": dft,
                             "requested_end_above_2^31": twin["interval"][1] > HARD,
                             "requested_start_at_or_above_2^31": twin["interval"][0] >= HARD},
                            dict(ctx, defect=dft, interval=twin["interval"], account=twin["account"],
                                 rows=[g[0] for g in doc.get("BIP44", {}).get("groups", [])][:4]))
    else:  # C15
        if req["paranoia"] and twin is not None:
            strings, scalars = cm.secrets_of(twin["full"], {w: i for i, w in enumerate(words)})
            # a secret STRING that also occurs in the reference public output by coincidence (a password like "1")
            # cannot be judged by substring search; its absence is still enforced by the white-list equality below
            pub_text = json.dumps(cm.ref_paranoia_filter(twin["full"]))
            strings = {k_: v_ for k_, v_ in strings.items() if v_ not in pub_text and json.dumps(v_)[1:-1] not in pub_text}
            channels = [("stdout", out)] + [("file:" + p, d.decode("utf-8", "replace")) for p, d in sorted(new_files.items())]
            # stderr: always for served runs; for failed runs only when the failure was produced by an injected
            # fault (I/O error, interrupt, race that took effect). A refusal at argument parsing (status 2) may
            # legitimately echo the user's own input back ("invalid value: '...'") - that is not filtered output.
            injected = any(x["kind"] in ("io", "interrupt", "crash") or (x["kind"] == "race" and x.get("effective"))
                           for x in inj.fired)
            if status == 0 or (status != 2 and injected and not plan["expected_invalid"]):
                channels.append(("stderr", err))
            for chname, text in channels:
                for kind, what in cm.scan_for_secrets(text, strings, scalars, words_set):
                    add("C15/secret-in-output/" + kind,
                        {"clause": "secret-in-output", "kind": kind, "channel": chname.split(":")[0]},
                        dict(ctx, channel=chname, what=what))
            if api_hist is not None:
                stats_extra["api_export_history"] = {api_hist["pre"]: 1}
                if api_hist["exc"] is None:
                    txt = api_hist["content"] or ""
                    for kind, what in cm.scan_for_secrets(txt, strings, scalars, words_set):
                        add("C15/secret-in-output/" + kind,
                            {"clause": "secret-in-output", "kind": kind, "channel": "api-export-file"},
                            dict(ctx, channel="file written by export_wallet(data=paranoia_mode(...)) after: " + api_hist["pre"],
                                 what=what, tail=txt[-160:]))
                    if not same_json(txt, Jpar):
                        add("C15/public-data-changed", {"clause": "api-export-file-equals-filtered-json"},
                            dict(ctx, history=api_hist["pre"], diff=_first_diff(txt, Jpar)))
            if status == 0:
                try:
                    doc = json.loads(served_text or "")
                except ValueError:
                    doc = None
                want = json.loads(json.dumps(cm.ref_paranoia_filter(twin["full"])))
                defects = cm.public_data_defects(want, doc)
                if defects:
                    add("C15/public-data-changed", {"clause": "public-data-equality"},
                        dict(ctx, defects=defects[:6],
                             diff=_first_diff(json.dumps(doc, indent=1, sort_keys=True),
                                              json.dumps(want, indent=1, sort_keys=True))))
                elif doc != want:
                    stats_extra["paranoia_output_has_extra_public_looking_data"] = 1
        elif req["paranoia"] and status == 0 and req.get("help") is None:
            add("C15/served-but-api-refuses", {"clause": "no-twin", "api_exc": twin_exc}, ctx)
    outcome = "help" if req.get("help") else ("served" if status == 0 else "refused")
    stats_extra = locals().get("stats_extra", {})
    gaps = inj.gaps_seen
    cells = {}
    for x in inj.fired:
        if x["kind"] == "race":
            key = "race|%s|before:%s|%s" % (x["action"], x["before"], "effective" if x["effective"] else "noop")
        elif x["kind"] in ("interrupt", "crash"):
            key = "%s|before:%s" % (x["kind"], x["before"])
        else:
            key = "io|%s" % x["fault"]
        cells[key] = cells.get(key, 0) + 1
    stats = {
        "outcome": {outcome: 1}, "status": {str(status): 1}, "batch": {plan["config"]["batch"]: 1},
        "command": {str(req.get("command")): 1}, "file_state": {str(req.get("file_state")): 1},
        "paranoia_served": int(bool(req["paranoia"] and status == 0)),
        "vfs_calls": len(vfs.log), "boundaries": len(gaps), "fault_cells": cells,
        "expected_invalid_components": {k.split(":")[0]: 1 for k in plan["expected_invalid"]},
        "twin_computed": int(twin is not None), "entropy_requests": n_requests,
        "gap_sequence": ["/".join(gaps)],
        "invalid_but_served": int(bool(plan["expected_invalid"]) and status == 0),
        "env_vars_read": sorted(k_ for k_ in device.env_reads if k_ not in ENV_IGNORED and not k_.startswith("PYTHON")),
        "env_replay": int(bool(plan.get("env"))),
        "runs_with_bystander_files": int(bool(bystanders)),
    }
    stats.update(stats_extra)
    facts = {"status": status, "stdout_sha": core.digest(out), "stderr_sha": core.digest(err),
             "new_files": {p: core.digest(d.hex()) for p, d in new_files.items()}, "fired": inj.fired,
             "calls": vfs.log, "clobbered": clobbered}
    sample = {"argv": plan["argv"], "faults": plan["faults"], "status": status, "outcome": outcome,
              "vfs_calls": [c[0] + ":" + c[2].__str__() for c in vfs.log][:12], "fired": inj.fired}
    return {"facts": facts, "violations": violations, "stats": stats, "sample": sample,
            "nontrivial": bool(inj.fired) or status == 0 or bool(plan["expected_invalid"])}


def _run_child_raw(plan):
    """Simulated run returning raw channels (for the fidelity cross-check)."""
    from sim.vfs import VFS
    from sim.entropy import EntropyDevice
    vfs = VFS()
    build_fs(vfs)
    device = EntropyDevice(plan["device_key"])
    inj = _Injector(plan, vfs, None)
    vfs.install()
    device.install(pin_clock=True)
    try:
        status, out, err, exc = run_cli(plan["argv"], vfs, inj, device)
        f1 = vfs.snapshot()
    finally:
        device.uninstall()
        vfs.uninstall()
    new_files = {p: v[3].decode("utf-8", "replace") for p, v in f1.items() if v[0] == "file" and v[2] == "cli"}
    return {"status": status, "stdout": out, "stderr": err, "new_files": new_files}


def same_json(text, want_text):
    """The property speaks of JSON identical to the API result: the same JSON VALUE and nothing else on the channel.
    Indentation, key order inside objects and a trailing newline are presentation, not content."""
    if text == want_text or text == want_text + os.linesep:
        return True
    try:
        return json.loads(text) == json.loads(want_text)
    except (ValueError, TypeError):
        return False


def _squash(t):
    return "".join(t.split())


def is_partial_of(text, want_text):
    """Under an injected I/O fault a partial output may exist, but only as a prefix of the right output
    (compared ignoring whitespace, so that a different but legitimate layout does not matter)."""
    return (want_text + os.linesep).startswith(text) or _squash(want_text).startswith(_squash(text))


def _first_diff(a, b):
    n = min(len(a), len(b))
    i = 0
    while i < n and a[i] == b[i]:
        i += 1
    return {"at": i, "got": a[max(0, i - 40):i + 80], "want": b[max(0, i - 40):i + 80], "len_got": len(a),
            "len_want": len(b)}


# =========================================================================== simulator
class CliSim(Simulator):
    props = ("C20", "C15")

    def selftest(self, prop):
        rb.selftest()
        # seam liveness: the VFS must see the CLI's stat/access/open/write/close; stdout must be captured;
        # the entropy device must see `new`'s request
        plan = {"property": prop, "seed": 1, "config": {"batch": "probe"},
                "req": {"command": "new", "secret": {"mnemonic_len": 12}, "password": None, "testnet": False,
                        "paranoia": False, "account": None, "interval": ["0", "1"], "file_state": "new", "help": None},
                "argv": ["-f", "/simfs/out/wallet.json", "--interval", "0", "1", "new", "--mnemonic-len", "12"],
                "expected_invalid": [], "faults": [], "device_key": "probe"}
        r = _run_child(plan)
        calls = [c[0] for c in r["facts"]["calls"]]
        # (which calls the CLI makes is its own business - a repair may drop os.access or use os.open; the seam is
        #  alive if the validator's look-ups and the creation of the file went through it)
        #  (whether the file is still there at the end is the oracle's business, not the probe's)
        if not calls or not any(c in calls for c in ("open", "rename", "link")) or "write" not in calls:
            raise core.HarnessError("VFS seam dead: the CLI's file never reached the simulated file system (%r)" % calls)
        if r["stats"]["entropy_requests"] < 1:
            raise core.HarnessError("entropy device seam dead for `new`")
        if r["facts"]["status"] != 0:
            raise core.HarnessError("probe run failed with status %r" % r["facts"]["status"])
        plan2 = dict(plan, argv=["--interval", "0", "1", "new", "--mnemonic-len", "12"],
                     req=dict(plan["req"], file_state=None))
        r2 = _run_child(plan2)
        if r2["facts"]["status"] != 0 or r2["stats"]["boundaries"] < 1:
            raise core.HarnessError("stdout seam dead: status %r, %d boundaries"
                                    % (r2["facts"]["status"], r2["stats"]["boundaries"]))
        # (verdicts of the probe runs are deliberately ignored here: the probe only proves the seams are live)
        return {"vfs_calls_probe": calls}

    def generate(self, prop, seed, tier, idx):
        return gen_plan(prop, seed, tier, idx)

    def run(self, prop, plan):
        res = self._run_once(prop, plan)
        if res.get("harness_error") or res["violations"] or plan.get("env"):
            return res
        # adaptive environment replay: every variable the CLI was seen to consult is planted with plausible values
        # and the same vector is run again, in its own process, under the same oracle
        names = res["stats"].get("env_vars_read") or []
        for val in (["debug", "1"] if names else []):
            p2 = dict(plan, env={k_: val for k_ in names})
            r2 = self._run_once(prop, p2)
            if r2.get("harness_error"):
                continue
            core.merge_stats(res["stats"], {"env_replays": 1})
            if r2["violations"]:
                for v_ in r2["violations"]:
                    v_["signature"] = dict(v_["signature"], env=sorted(names))
                    v_["detail"] = dict(v_["detail"], planted_environment=p2["env"]) if isinstance(v_["detail"], dict) else v_["detail"]
                r2["stats"] = res["stats"]
                return r2
        return res

    def _run_once(self, prop, plan):
        st, out = core.fork_call(_run_child, (plan,), timeout=300)
        if st != "ok":
            return {"trace": plan, "violations": [], "stats": {}, "digest": None,
                    "harness_error": "run child %s: %s" % (st, out)}
        return {"trace": plan, "violations": out["violations"], "stats": out["stats"],
                "digest": core.digest(out["facts"]), "nontrivial": out["nontrivial"], "harness_error": None,
                "sample": out["sample"]}

    # ----------------------------------------------------------------------- fidelity vs. real processes
    def extra_checks(self, prop, tier, verif_seed):
        """Fault-free vectors run as real `python -m btc_hd_wallet` subprocesses in a scratch directory
        (outside /repo and /verif, removed afterwards); (status, stdout, file) must equal the in-process
        simulation.  Not simulated; reported as traces_validated_against_impl. A mismatch is a harness
        error (simulation infidelity), never a property verdict."""
        import shutil
        import tempfile
        import subprocess
        n_want = 8 if tier == "quick" else 48
        errors = []
        checked = 0
        idx = 0
        tmp = tempfile.mkdtemp(prefix="verif-cli-real-")
        try:
            while checked < n_want and idx < n_want * 30:
                seed = core.derive_seed(prop + "-fidelity", verif_seed, idx)
                idx += 1
                plan = gen_plan(prop, seed, tier, 4000)      # idx = 0 mod 4 => fault-free argv batch (outside the long-interval ladder)
                req = plan["req"]
                if req.get("command") == "new" or req.get("file_state") in ("ro_parent",):
                    continue                                  # real entropy differs; tests run as root
                st, out = core.fork_call(_run_child_raw, (plan,), timeout=300)
                if st != "ok":
                    errors.append("fidelity: simulated run failed: %s" % out)
                    break
                root = os.path.join(tmp, "r%d" % idx)
                os.makedirs(os.path.join(root, "simfs", "cwd"))
                for d in ("out/dir", "victim", "fresh", "realdir", "home"):
                    os.makedirs(os.path.join(root, "simfs", d))
                os.symlink(os.path.join(root, "simfs/realdir"), os.path.join(root, "simfs/out/linkdir"))
                with open(os.path.join(root, "simfs/out/existing.json"), "wb") as f:
                    f.write(SENTINEL_PRE)
                with open(os.path.join(root, "simfs/victim/secret.txt"), "wb") as f:
                    f.write(SENTINEL_VICTIM)
                os.symlink(os.path.join(root, "simfs/out/nowhere.json"), os.path.join(root, "simfs/out/dangling"))
                os.symlink(os.path.join(root, "simfs/victim/secret.txt"), os.path.join(root, "simfs/out/link2file"))
                # also inside --file=/simfs/... and -f/simfs/... spellings
                argv = [a.replace("/simfs/", root + "/simfs/", 1) if (a.startswith(("/simfs/", "-f/simfs/")) or
                                                                     "=/simfs/" in a) else a for a in plan["argv"]]
                env = dict(os.environ, PYTHONPATH=core.REPO, PYTHONDONTWRITEBYTECODE="1",
                           HOME=os.path.join(root, "simfs/home"))
                r = subprocess.run([sys.executable, "-m", "btc_hd_wallet"] + argv, cwd=os.path.join(root, "simfs/cwd"),
                                   env=env, capture_output=True, text=True, timeout=300)
                real_files = {}
                for dp, dn, fn in os.walk(os.path.join(root, "simfs")):
                    for name in fn:
                        p = os.path.join(dp, name)
                        if os.path.islink(p):
                            continue
                        rel = p[len(root):]
                        if rel in ("/simfs/out/existing.json", "/simfs/victim/secret.txt"):
                            continue
                        real_files[rel] = open(p, "rb").read().decode("utf-8", "replace")
                sim_files = {p: d for p, d in out["new_files"].items()}
                same = (r.returncode == out["status"] and r.stdout == out["stdout"] and real_files == sim_files)
                checked += 1
                if not same:
                    errors.append("simulation infidelity for argv %r: real (status %d, %d stdout chars, files %r) vs "
                                  "simulated (status %d, %d stdout chars, files %r)"
                                  % (plan["argv"], r.returncode, len(r.stdout), sorted(real_files), out["status"],
                                     len(out["stdout"]), sorted(sim_files)))
                shutil.rmtree(root, ignore_errors=True)
        finally:
            shutil.rmtree(tmp, ignore_errors=True)
        return {"traces_validated_against_impl": checked}, errors

    # ----------------------------------------------------------------------- shrinking
    def size(self, prop, plan):
        return len(plan["argv"]) + 3 * len(plan["faults"])

    def shrink(self, prop, plan):
        req = plan["req"]
        # drop faults
        for i in range(len(plan["faults"])):
            p = dict(plan)
            p["faults"] = plan["faults"][:i] + plan["faults"][i + 1:]
            yield p
        # drop optional global options (argv and semantic request together)
        argv = plan["argv"]

        def drop_opt(flag, nvals, **reqchg):
            if flag in argv:
                i = argv.index(flag)
                p = dict(plan)
                p["argv"] = argv[:i] + argv[i + 1 + nvals:]
                p["req"] = dict(req, **reqchg)
                return p
            return None
        cands = [drop_opt("--testnet", 0, testnet=False),
                 drop_opt("--account", 1, account=None)]
        if prop != "C15":
            cands.append(drop_opt("--paranoia", 0, paranoia=False))
        if req.get("interval") is not None and req["interval"] != ["0", "1"] and "--interval" in argv:
            i = argv.index("--interval")
            p = dict(plan)
            p["argv"] = argv[:i + 1] + ["0", "1"] + argv[i + 3:]
            p["req"] = dict(req, interval=["0", "1"])
            cands.append(p)
        if "--password" in argv:
            cands.append(drop_opt("--password", 1, password=None))
        for f in ("-f", "--file"):
            if f in argv and not plan["faults"]:
                cands.append(drop_opt(f, 1, file_state=None))
        if req.get("file_state") not in (None, "new", "new_fresh") and ("-f" in argv or "--file" in argv):
            f = "-f" if "-f" in argv else "--file"
            i = argv.index(f)
            p = dict(plan)
            p["argv"] = argv[:i + 1] + [file_arg("new")] + argv[i + 2:]
            p["req"] = dict(req, file_state="new")
            cands.append(p)
        for c in cands:
            if c is not None:
                yield c
        # smaller fault parameters
        for i, f in enumerate(plan["faults"]):
            if f.get("gap", 0) > 0:
                for g in range(0, f["gap"]):
                    p = dict(plan)
                    nf = list(plan["faults"])
                    nf[i] = dict(f, gap=g)
                    p["faults"] = nf
                    yield p

    # ----------------------------------------------------------------------- reporting
    def secondary_backends(self, prop, tier):
        # interpreter configuration: the same simulator under `python -O` (assert statements stripped)
        return [("ecdsa-O", 160, None)] if tier == "quick" else [("ecdsa-O", None, 60)]

    def quick_runs(self, prop):
        return int(os.environ.get("VERIF_%s_RUNS" % prop, "1600" if prop == "C20" else "1000"))

    def thorough_seconds(self, prop):
        return int(os.environ.get("VERIF_%s_SECONDS" % prop, "600"))

    def rule(self, prop):
        base = ("one run = one argument vector generated from a grammar over the five sub-commands and global options "
                "(values on both sides of every validator bound; passwords with edge/inner whitespace, case and combining "
                "marks; argparse re-spellings: unambiguous abbreviations, --opt=value, -fVALUE, overridden repeats; -f path states new/existing/directory/missing parent/"
                "read-only parent/dangling symlink/symlink to file/.. spelling/symlinked parent/~/trailing slash/empty) "
                "executed as module __main__ (runpy) in-process on the in-memory VFS with a seeded entropy device; batches: argv (fault-free), race (an "
                "environment actor creates a file/dir/symlink at the target or removes/chmods its parent at VFS call "
                "boundary g), io (ENOSPC after k bytes, EIO on write/close, EMFILE/EACCES on open, EPIPE/EIO on stdout write, "
                "EPIPE on explicit flush, KeyboardInterrupt at boundary g, process KILLED at boundary g - nothing "
                "after it runs, only the file system state survives). ")
        if prop == "C20":
            return base + ("Oracle: refused (status!=0, no wallet data on stdout, no new file) OR served (status 0, output "
                           "== json.dumps(API result, indent=4) for the same secret/network/account/interval, library-filtered "
                           "under --paranoia, BIP44 row shape) OR help; always: no inode owned by someone else is modified. "
                           "Non-trivial = a fault fired, the run was served, or a component was invalid; distinct by digest "
                           "of (status, stdout, stderr, files, VFS call log, fired faults).")
        return base + ("Only --paranoia vectors. Oracle: no secret string of the unfiltered API result (mnemonic, password, "
                       "BIP85 values, account prv, WIFs; raw or JSON-escaped), no token decoding to a WIF/xprv payload, no "
                       "64-hex private scalar, no >=12-word run in stdout, any file written, or stderr of a served run; "
                       "every public datum of the reference (white-list) filter of the unfiltered API result is present, in place and "
                       "identical in the served output (extra harmless fields do not alarm).")

    def coverage_extra(self, prop, st):
        cells = st.get("fault_cells", {})
        return {
            "simulated_time": "no timers: logical time = VFS/stdout call boundaries of the CLI: %d" % st.get("boundaries", 0),
            "fault_kinds_fired": {k: v for k, v in sorted(cells.items())},
            "race_cells_effective": len([k for k in cells if k.startswith("race|") and k.endswith("effective")]),
            "distinct_boundary_sequences": st.get("gap_sequence#distinct", 0),
        }

    def reach_failures(self, prop, st, tier):
        out = []
        oc = st.get("outcome", {})
        if not oc.get("served"):
            out.append("no run was served")
        if prop == "C20":
            if not oc.get("refused"):
                out.append("no run was refused")
            cells = st.get("fault_cells", {})
            for a in RACE_ACTIONS:
                if not any(k.startswith("race|%s|" % a) and k.endswith("|effective") for k in cells):
                    out.append("race action %s never took effect" % a)
            if not any(k.startswith("race|file|before:open") for k in cells):
                out.append("no file appeared between the validator and open()")
            for f in IO_FAULTS:
                if f not in ("interrupt", "crash", "EPIPE_flush") and not cells.get("io|" + f):
                    out.append("I/O fault %s never fired" % f)
            if not any(k.startswith("interrupt|") for k in cells):
                out.append("interrupt never delivered")
            if not any(k.startswith("crash|") for k in cells):
                out.append("crash never delivered")
        else:
            if st.get("paranoia_served", 0) < 10:
                out.append("fewer than 10 served --paranoia runs")
        return out[:8]

    def real_components(self, prop):
        return ["btc_hd_wallet.__main__ (argparse validators, main), paper_wallet, base_wallet, bip32/39/85, keys (unmodified)",
                "argparse, pathlib, json (stdlib, real)", "ecdsa package"]

    def stub_components(self, prop):
        return ["file system under /simfs and relative paths: in-memory VFS behind os.stat/lstat/access/open/write/close/"
                "replace/rename/unlink/mkdir/listdir/fdopen/link/chmod and builtins.open/io.open",
                "sys.argv / sys.stdout / sys.stderr / process exit status mapping (main() is run in-process)",
                "the other process (environment actor) and I/O errors / interrupts: injector at every VFS/stdout boundary",
                "OS entropy device (deterministic stream) and clock/pid pins"]

    def assumptions(self, prop):
        return ["main() run in-process with SystemExit / uncaught exception mapped to the interpreter's exit status "
                "(0, code, 1, 130)", "VFS models the Linux semantics the CLI can observe (non-root user); not a full POSIX model",
                "for from-master-xprv the network is the one encoded in the key (the API takes no network argument)",
                "help (-h) is not wallet output", "ecdsa fallback back end"]


SIM = CliSim()
