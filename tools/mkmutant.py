#!/venv/bin/python
"""tools/mkmutant.py NAME PROPS FILE  (reads OLD and NEW snippets from a python file given via --spec)

Helper used while building the sensitivity set: applies a textual replacement to a
scratch copy of /repo, checks that the pinned suite still passes, and stores the
diff as /verif/mutants/NAME.patch with a header.  Scratch copy is removed afterwards.
"""
import os
import sys
import json
import shutil
import subprocess
import tempfile

VERIF = os.path.dirname(os.path.dirname(os.path.abspath(__file__)))


def main():
    spec = json.load(open(sys.argv[1]))
    out_dir = os.path.join(VERIF, "mutants")
    os.makedirs(out_dir, exist_ok=True)
    for m in spec:
        tmp = tempfile.mkdtemp(prefix="mut-")
        try:
            subprocess.run("git -C /repo archive HEAD | tar -x -C %s" % tmp, shell=True, check=True)
            subprocess.run(["git", "init", "-q"], cwd=tmp, check=True)
            subprocess.run("git add -A && git -c user.email=x@x -c user.name=x commit -qm base", shell=True, cwd=tmp, check=True)
            for ed in m["edits"]:
                p = os.path.join(tmp, ed["file"])
                s = open(p).read()
                if s.count(ed["old"]) != 1:
                    raise SystemExit("%s: old snippet occurs %d times in %s" % (m["name"], s.count(ed["old"]), ed["file"]))
                open(p, "w").write(s.replace(ed["old"], ed["new"]))
            diff = subprocess.run(["git", "diff"], cwd=tmp, capture_output=True, text=True, check=True).stdout
            r = subprocess.run(["/venv/bin/python", "-m", "pytest", "-q", "-p", "no:cacheprovider", "-n", "8",
                                "--deselect", "tests/test_parser.py::TestArgumentParsing::test_invalid_file_argument"],
                               cwd=tmp, capture_output=True, text=True)
            passes = r.returncode == 0
            hdr = "# mutant: %s\n# breaks: %s\n# needs: %s\n# pinned suite passes: %s\n" % (
                m["name"], ",".join(m["props"]), m.get("needs", ""), passes)
            with open(os.path.join(out_dir, m["name"] + ".patch"), "w") as f:
                f.write(hdr + diff)
            print("%-40s suite_passes=%s" % (m["name"], passes))
            if not passes:
                print(r.stdout[-600:])
        finally:
            shutil.rmtree(tmp, ignore_errors=True)


if __name__ == "__main__":
    main()
