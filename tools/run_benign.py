#!/venv/bin/python
"""tools/run_benign.py ID SRC_WORKTREE "description"

False-alarm test: a behaviour-preserving refactor written by an independent sub-agent is applied to a
scratch copy of /repo's working tree (outside /repo and /verif, removed afterwards); the pinned suite must
pass and EVERY quick check must exit 0 on it. Result stored under /verif/benign/ID/ (patch.diff, meta.json).
A non-zero exit is investigated by hand: either the refactor really broke the property (then it is not benign
and is recorded as such) or the check raised a false alarm (then the check is corrected).
"""
import os
import sys
import json
import shutil
import subprocess
import tempfile

VERIF = os.path.dirname(os.path.dirname(os.path.abspath(__file__)))
PROPS = ["C01", "C08", "C13", "C15", "C18", "C19", "C20"]


def main():
    sid, src, desc = sys.argv[1], sys.argv[2], sys.argv[3]
    props = sys.argv[4].split(",") if len(sys.argv) > 4 else PROPS
    patch = os.path.join(src, "patch.diff") if os.path.isdir(src) else src
    tmp = tempfile.mkdtemp(prefix="verif-benign-")
    try:
        repo = os.path.join(tmp, "repo")
        shutil.copytree("/repo", repo, ignore=shutil.ignore_patterns(".git", "__pycache__", "*.egg-info"))
        r = subprocess.run(["patch", "-p1", "-s", "-i", patch], cwd=repo, capture_output=True, text=True)
        if r.returncode != 0:
            print("PATCH DOES NOT APPLY", r.stdout)
            return 1
        t = subprocess.run(["/venv/bin/python", "-m", "pytest", "-q", "-p", "no:cacheprovider", "-n", "8", "--deselect",
                            "tests/test_parser.py::TestArgumentParsing::test_invalid_file_argument"], cwd=repo,
                           capture_output=True, text=True)
        suite = t.stdout.strip().splitlines()[-1] if t.stdout.strip() else "?"
        print("suite:", suite)
        results = {}
        for prop in props:
            env = dict(os.environ, VERIF_REPO=repo, VERIF_OUT=os.path.join(tmp, "out"))
            c = subprocess.run([os.path.join(VERIF, "check"), prop, "--no-hashseed-selftest"], env=env,
                               capture_output=True, text=True, timeout=7200)
            lines = [l for l in c.stdout.splitlines() if l.startswith(("VIOLATION", "HARNESS-ERROR"))]
            results[prop] = {"exit": c.returncode, "lines": [l[:400] for l in lines[:4]]}
            print("check %s: exit %d %s" % (prop, c.returncode, "" if c.returncode == 0 else lines[:3]))
            if c.returncode != 0:
                keep = os.path.join("/tmp", "benign-%s-%s" % (sid, prop))
                shutil.rmtree(keep, ignore_errors=True)
                if os.path.isdir(os.path.join(tmp, "out", "replays")):
                    shutil.copytree(os.path.join(tmp, "out", "replays"), keep)
                    print("   replays kept for inspection in", keep)
        out = os.path.join(VERIF, "benign", sid)
        os.makedirs(out, exist_ok=True)
        shutil.copy(patch, os.path.join(out, "patch.diff"))
        with open(os.path.join(out, "meta.json"), "w") as f:
            json.dump({"id": sid, "description": desc, "pinned_suite": suite, "quick_checks": results,
                       "all_quiet": all(v["exit"] == 0 for v in results.values())}, f, indent=1)
            f.write("\n")
        return 0 if all(v["exit"] == 0 for v in results.values()) else 1
    finally:
        shutil.rmtree(tmp, ignore_errors=True)


if __name__ == "__main__":
    sys.exit(main())
