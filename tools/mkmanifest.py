#!/venv/bin/python
"""Regenerates MANIFEST.json from one place (kept valid at all times)."""
import json
import os

VERIF = os.path.dirname(os.path.dirname(os.path.abspath(__file__)))

CHECKS = {
 "C13": dict(
    engine="threads_sim", level="exploration", design="DESIGN.md section 3",
    technique="deterministic simulation: real client threads stepped one at a time by a seeded baton scheduler at sys.monitoring line/instruction events; isolated-fork oracle; ddmin + JSON replay",
    text="Seeded search over call histories and thread interleavings on shared wallet/node/generator objects: every value the public API returns under the simulated history and schedule is compared with the same request evaluated by the library on fresh objects in a freshly forked, history-free process. Pre-emption policies: Bernoulli, conflict-biased, sparse, site-uniform atomicity tests (a whole operation of another client inside a one-line window, every distinct line equally often) and operation-granular; roots include the same key material reached two ways (full wallet + private/public extended-key import) and wallet objects built mid-history. Sampling, not enumeration: a clean batch is evidence that no history- or schedule-dependence exists on the explored schedules (pre-emption at every line/instruction of the package's own code objects), not a proof; narrow races are hit with a probability per batch (DESIGN 12.6).",
    note="Trusted: CPython's sys.monitoring event order, fork() as process snapshot, the baton scheduler; pre-emption only inside btc_hd_wallet's own code objects (never inside ecdsa/hashlib/json); ecdsa fallback back end (libsecp256k1 absent). Functional bugs that are history-independent are out of scope by construction (library is its own oracle)."),
 "C01": dict(
    engine="derivation_sim", level="exploration", design="DESIGN.md section 5",
    technique="deterministic simulation with a fault-injected PRF: HMAC-SHA512 seam replaced by a chosen-output stub under a seeded fault plan; lock-step executable BIP32 reference model as oracle",
    text="Seeded search over roots (seed or parsed extended private key with scalar class, depth 0..254, fingerprint, child number, chain code), operation sequences and PRF fault plans that plant VALID algebraic corner outputs (IL=0/1/n-1, child=1/n-1/leading-zero bytes, IL=k_par, IR=00/ff) at chosen (operation, call) sites; a fault-free batch runs separately. Every HMAC input the library forms and every node it returns (key as 32 bytes, chain code, depth, index, parent fingerprint, xprv/xpub strings, at every level) must equal the reference model's. Every cell of the valid-corner fault matrix fires on every run of the check.",
    note="Trusted: the harness reference model (own secp256k1, BIP32, Base58Check, RFC 2104 HMAC; self-tested against BIP32 vector 1 and the ecdsa package at start-up); main batch on the ecdsa fallback back end (the only real one in this sandbox) plus an 800-run / 120 s batch with sim/fake_secp.py registered as pysecp256k1 (a stub of the C library's documented contract) so the primary-path glue is exercised too. Public-side disagreements belong to C02 and are only counted."),
 "C18": dict(
    engine="derivation_sim", level="fault_enumeration", design="DESIGN.md section 5",
    technique="deterministic simulation with a fault-injected PRF: every invalid-output kind planted at every derivation site and level position (fault matrix enumerated, parents seeded); reference model decides validity",
    text="Fault enumeration at the PRF seam: IL in {n, n+1, 2^256-1}, IL = n-k_par (zero private child / public point at infinity), master IL = 0, BIP85 secret 0 / n / 2^256-1, each planted at master, private-normal, private-hardened, public-normal, BIP85-wif and BIP85-xprv sites at first/middle/last/only level of a path, among pass-through calls. Whenever the reference model declares the (substituted) output invalid the call must raise; returning a node or string is a violation. All 58 matrix cells fire on every run; parents, indexes and histories around the fault are seeded, not enumerated.",
    note="Trusted: reference model's validity verdict; main batch on the ecdsa fallback back end, plus a second batch with a stub of pysecp256k1's documented contract (sim/fake_secp.py) so that the primary-path branches (ec_seckey_verify / tweak_add refusals) are exercised; the real libsecp256k1 is absent here. IL=0 for a child is valid per BIP32 and is not planted as invalid."),
}

CHECKS.update({
 "C08": dict(
    engine="entropy_sim", level="exploration", design="DESIGN.md section 4",
    technique="deterministic simulation: OS entropy device, clock, pid and process-wide PRNG behind seams; seeded histories with device faults and real fork() twins; request accounting + twin equality/inequality oracles",
    text="Seeded search over histories of fresh-wallet requests (five entry points incl. the CLI `new`) interleaved with environment events: process-wide PRNG reset to seen states, clock freeze/jumps, device epoch changes, device faults (EIO, no OS source, EAGAIN once) switched on and off, fork twins that differ only in the device stream (must differ) or in everything but the device stream (must agree), and statistical batches of 64 fresh mnemonics per length (every entropy bit varies, none coincide). A returned wallet must have obtained >= ENT bits in successful device requests; after a fault clears the next request must succeed; every sampled bit position of the OS bytes served for a request must matter (bit-sensitivity, evaluated from identical forked state); no run of >= 48 entropy bits may re-appear in the next wallet; environment variables seen to be read during a request are planted and the request replayed.",
    note="Trusted: the patched names (random._urandom, os.urandom, os.getrandom, open('/dev/urandom')) are the only routes to OS randomness available to the library's pure-Python code; fork() as snapshot; the repo's word list used only as a bijection. Statistical clause is reproducible per seed (device stream keyed by the run seed)."),
 "C15": dict(
    engine="cli_sim", level="exploration", design="DESIGN.md section 6",
    technique="deterministic simulation of the CLI process: in-memory VFS + stdout/stderr capture + entropy device, environment actor and I/O-fault injector at every call boundary; secret scan over every channel against the unfiltered API result",
    text="Seeded search over --paranoia argument vectors (all five sub-commands, both networks, accounts, intervals incl. empty ones, stdout vs -f path states) run as module __main__ in-process, fault-free and under races / I/O errors / interrupts / process kills (whatever is on disk at the instant of the kill is scanned). On every channel the process wrote (stdout, each file, stderr of served runs; complete or partial) no secret string of the unfiltered API result (raw or JSON-escaped), no token decoding to a WIF/xprv payload, no 64-hex private scalar and no >=12-word run may occur, at any nesting depth; every path, address, public key and extended public key of the harness's white-list filter of the unfiltered API result must be present, in place and identical in the served output (additional harmless fields do not alarm).",
    note="Trusted: harness Base58Check/Bech32 decoders and the reference filter; in-process main() with exit-status mapping; VFS fidelity (cross-checked against real subprocesses in C20). Secrets are taken from the library's own unfiltered output for the same request (whether that output is right is C06/C20)."),
 "C19": dict(
    engine="wire_sim", level="exploration", design="DESIGN.md section 7",
    technique="deterministic simulation of a faulty byte stream: read-logging BytesIO subclass delivering seeded EOF/flip/splice/tail/crafted-length faults to a multi-message reader; strict reference parser as oracle",
    text="Seeded search over wires carrying 1-5 scripts or varints written by the library (element lengths at every push threshold, 521 and 2^64 refusal probes) and read back message after message from one stream; fault-free wires must round-trip with standard minimal pushes and exact byte accounting, faulty wires (EOF inside varint / push length / push data / at a boundary, flips, splices, tail garbage, adversarial declared lengths) may be refused but whatever is accepted must be accepted by the strict reference parser with the same elements and byte count, and the parsed object itself (also extended with + / append) must serialise to the standard minimal form. Element lengths 0..521 are covered exhaustively on every quick run; scripts up to 70 KB (0xfe length prefix) and totals at the 252..256 boundary are generated.",
    note="Trusted: the harness's reference parser/serialiser; 0x4e treated as a plain opcode on both sides; zero-length elements are outside the property's domain."),
 "C20": dict(
    engine="cli_sim", level="exploration", design="DESIGN.md section 6",
    technique="deterministic simulation of the CLI process: in-memory VFS with an adversarial environment actor and I/O-fault injector scheduled at every VFS/stdout call boundary; API twin as reference model; real-subprocess fidelity cross-check",
    text="Seeded search over argument vectors (grammar over five sub-commands and global options with values on both sides of every validator bound and eleven -f path states) executed by main() in-process on an in-memory file system, in three separately run batches: fault-free, races (another process creates a file/dir/symlink at the target or removes/chmods its parent at a chosen call boundary) and I/O errors/interrupts/crashes (ENOSPC after k bytes, EIO on write/close, EMFILE/EACCES on open, EPIPE/EIO on stdout write or flush, KeyboardInterrupt, process killed at a call boundary with only the file system surviving). Oracle: refused (status != 0, no wallet data on stdout, no new file) or served (status 0, the channel carries exactly the JSON value of the library API result for the same secret/network/account/interval, library-filtered under --paranoia, BIP44-shaped rows) or help; always: no inode owned by someone else is modified. The hardened-address-index defect for END > 2^31 found by this check was first a known finding and is now repaired (ecd3cb0); no open finding.",
    note="Trusted: VFS models the Linux semantics the CLI can observe for a non-root user (fault-free subset cross-checked against real `python -m btc_hd_wallet` subprocesses: 8 vectors per quick run, 48 per thorough run); exit-status mapping of in-process main(); the API twin is the library itself (functional correctness of generate() is C06)."),
})

NOT_APPLICABLE = [
 ("C02", "pure algebraic identity over (key, chain code, index list): no schedule, fault, environment or history on its path; the PRF seam's infinity case is decided under C18"),
 ("C03", "pure string->bytes functions (NFKD, PBKDF2, one HMAC); five constructors are five stateless call chains"),
 ("C04", "pure bit-packing over a byte string and a constant word list"),
 ("C05", "pure hashing/encoding of a public key; RIPEMD-160 padding boundaries are an input-length sweep, not a fault schedule"),
 ("C06", "pure function of (seed, network, account, interval); its history-independence is C13 and its CLI wiring is C20, both claimed"),
 ("C07", "pure serialise/parse of a 78-byte payload read once from an in-memory buffer; the property says nothing about short or failing streams"),
 ("C09", "pure codecs over scalars and points"),
 ("C10", "pure string/bytes codec"),
 ("C11", "pure codec; the <=4-error claim is a statement about a linear code decided by enumeration/algebra - the 'errors' are inputs, not a fault schedule"),
 ("C12", "pure function of (master key, application, parameters, index); its invalid-key branch is covered under C18's PRF seam"),
 ("C14", "pure functions of an extended public key and a sub-path; object sharing between full and watch-only wallets is exercised under C13"),
 ("C16", "a flag threaded through pure functions; no state, clock, I/O or environment decides it"),
 ("C17", "pure string parser/formatter"),
]


def main():
    extra = {}
    p = os.path.join(VERIF, "tools", "manifest_extra.json")
    checks = []
    for pid in sorted(CHECKS):
        c = CHECKS[pid]
        checks.append({
            "property_id": pid,
            "quick_cmd": "./check %s --tier quick" % pid,
            "thorough_cmd": "./check %s --tier thorough" % pid,
            "evidence_file": "evidence/%s.json" % pid,
            "replay_cmd_template": "./check %s --replay {path}" % pid,
            "engine": c["engine"],
            "level_claimed": {"category": c["level"], "text": c["text"], "design_ref": c["design"]},
            "level_note": c["note"],
            "technique": c["technique"],
        })
    claimed = set(CHECKS)
    engines = {}
    for pid, c in CHECKS.items():
        engines.setdefault(c["engine"], []).append(pid)
    doc = {
        "version": 1,
        "setup_cmd": "/venv/bin/python -c \"import sys; sys.path.insert(0,'/repo'); import btc_hd_wallet, ecdsa, hashlib; hashlib.pbkdf2_hmac; print('setup ok: nothing to build, checks import /repo working tree at run time')\"",
        "hooks": {
            "guard": "BTC_HD_WALLET_VERIF",
            "enable": "no source hooks exist: every seam is a name the code resolves at call time (hmac.new, random._urandom/os.urandom, os.*/builtins.open, sys.argv/stdout, sys.monitoring); the guard variable is reserved and unused",
            "baseline_off_cmd": "cd /repo && /venv/bin/python -m pytest -ra -q -p no:cacheprovider --timeout=900 --continue-on-collection-errors",
            "source_commits": [],
            "add_only": True,
        },
        "engines": [{"name": k, "path": "checks/%s.py" % k, "serves_properties": sorted(v),
                     "kind_free_text": "seeded deterministic simulator with fault injection (own scheduler/seams, fork-per-run zygotes, ddmin, JSON replay)"}
                    for k, v in sorted(engines.items())],
        "checks": checks,
        "notes": "Exit status of every check: 0 held / 1 VIOLATION line / 2 harness error (dead seam, timeout, nondeterministic replay, self-test failure). VERIF_SEED and VERIF_TIER are honoured. Fixes committed to /repo: see known_findings.json ('fixed' entries).",
        "not_applicable": [{"property_id": p_, "reason": r} for p_, r in NOT_APPLICABLE if p_ not in claimed],
    }
    with open(os.path.join(VERIF, "MANIFEST.json"), "w") as f:
        json.dump(doc, f, indent=1)
        f.write("\n")


if __name__ == "__main__":
    main()
