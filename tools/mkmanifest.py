#!/venv/bin/python
"""Regenerates MANIFEST.json from one place (kept valid at all times)."""
import json
import os

VERIF = os.path.dirname(os.path.dirname(os.path.abspath(__file__)))

CHECKS = {
 "C13": dict(
    engine="threads_sim", level="exploration", design="DESIGN.md section 3",
    technique="deterministic simulation: real client threads stepped one at a time by a seeded baton scheduler at sys.monitoring line/instruction events; isolated-fork oracle; ddmin + JSON replay",
    text="Seeded search over call histories and thread interleavings on shared wallet/node/generator objects: every value the public API returns under the simulated history and schedule is compared with the same request evaluated by the library on fresh objects in a freshly forked, history-free process. Sampling, not enumeration: a clean batch is evidence that no history- or schedule-dependence exists on the explored schedules (pre-emption at every line/opcode of the package's own files), not a proof.",
    note="Trusted: CPython's sys.monitoring event order, fork() as process snapshot, the baton scheduler; pre-emption only inside btc_hd_wallet's own code objects (never inside ecdsa/hashlib/json); ecdsa fallback back end (libsecp256k1 absent). Functional bugs that are history-independent are out of scope by construction (library is its own oracle)."),
 "C01": dict(
    engine="derivation_sim", level="exploration", design="DESIGN.md section 5",
    technique="deterministic simulation with a fault-injected PRF: HMAC-SHA512 seam replaced by a chosen-output stub under a seeded fault plan; lock-step executable BIP32 reference model as oracle",
    text="Seeded search over roots (seed or parsed extended private key with scalar class, depth 0..254, fingerprint, child number, chain code), operation sequences and PRF fault plans that plant VALID algebraic corner outputs (IL=0/1/n-1, child=1/n-1/leading-zero bytes, IL=k_par, IR=00/ff) at chosen (operation, call) sites; a fault-free batch runs separately. Every HMAC input the library forms and every node it returns (key as 32 bytes, chain code, depth, index, parent fingerprint, xprv/xpub strings, at every level) must equal the reference model's. Every cell of the valid-corner fault matrix fires on every run of the check.",
    note="Trusted: the harness reference model (own secp256k1, BIP32, Base58Check, RFC 2104 HMAC; self-tested against BIP32 vector 1 and the ecdsa package at start-up); ecdsa fallback back end only. Public-side disagreements belong to C02 and are only counted."),
 "C18": dict(
    engine="derivation_sim", level="fault_enumeration", design="DESIGN.md section 5",
    technique="deterministic simulation with a fault-injected PRF: every invalid-output kind planted at every derivation site and level position (fault matrix enumerated, parents seeded); reference model decides validity",
    text="Fault enumeration at the PRF seam: IL in {n, n+1, 2^256-1}, IL = n-k_par (zero private child / public point at infinity), master IL = 0, BIP85 secret 0 / n / 2^256-1, each planted at master, private-normal, private-hardened, public-normal, BIP85-wif and BIP85-xprv sites at first/middle/last/only level of a path, among pass-through calls. Whenever the reference model declares the (substituted) output invalid the call must raise; returning a node or string is a violation. All 58 matrix cells fire on every run; parents, indexes and histories around the fault are seeded, not enumerated.",
    note="Trusted: reference model's validity verdict; ecdsa fallback back end (the pysecp256k1 branch is dead code in this sandbox). IL=0 for a child is valid per BIP32 and is not planted as invalid."),
}

NOT_APPLICABLE = [
 ("C02", "pure algebraic identity over (key, chain code, index list): no schedule, fault, environment or history on its path; the PRF seam's infinity case is decided under C18"),
 ("C03", "pure string->bytes functions (NFKD, PBKDF2, one HMAC); five constructors are five stateless call chains"),
 ("C04", "pure bit-packing over a byte string and a constant word list"),
 ("C05", "pure hashing/encoding of a public key; RIPEMD-160 padding boundaries are an input-length sweep, not a fault schedule"),
 ("C06", "pure function of (seed, network, account, interval); its history-independence is C13 and its CLI wiring is C20, both claimed"),
 ("C07", "pure serialise/parse of a 78-byte payload read once from an in-memory buffer; the property says nothing about short or failing streams"),
 ("C09", "pure codecs over scalars and points"),
 ("C10", "pure string/bytes codec"),
 ("C11", "pure codec; the <=4-error claim is a statement about a linear code decided by enumeration/algebra - the 'errors' are inputs, not a fault schedule"),
 ("C12", "pure function of (master key, application, parameters, index); its invalid-key branch is covered under C18's PRF seam"),
 ("C14", "pure functions of an extended public key and a sub-path; object sharing between full and watch-only wallets is exercised under C13"),
 ("C16", "a flag threaded through pure functions; no state, clock, I/O or environment decides it"),
 ("C17", "pure string parser/formatter"),
]


def main():
    extra = {}
    p = os.path.join(VERIF, "tools", "manifest_extra.json")
    checks = []
    for pid in sorted(CHECKS):
        c = CHECKS[pid]
        checks.append({
            "property_id": pid,
            "quick_cmd": "./check %s --tier quick" % pid,
            "thorough_cmd": "./check %s --tier thorough" % pid,
            "evidence_file": "evidence/%s.json" % pid,
            "replay_cmd_template": "./check %s --replay {path}" % pid,
            "engine": c["engine"],
            "level_claimed": {"category": c["level"], "text": c["text"], "design_ref": c["design"]},
            "level_note": c["note"],
            "technique": c["technique"],
        })
    claimed = set(CHECKS)
    engines = {}
    for pid, c in CHECKS.items():
        engines.setdefault(c["engine"], []).append(pid)
    doc = {
        "version": 1,
        "setup_cmd": "/venv/bin/python -c \"import sys; sys.path.insert(0,'/repo'); import btc_hd_wallet, ecdsa, hashlib; hashlib.pbkdf2_hmac; print('setup ok: nothing to build, checks import /repo working tree at run time')\"",
        "hooks": {
            "guard": "BTC_HD_WALLET_VERIF",
            "enable": "no source hooks exist: every seam is a name the code resolves at call time (hmac.new, random._urandom/os.urandom, os.*/builtins.open, sys.argv/stdout, sys.monitoring); the guard variable is reserved and unused",
            "baseline_off_cmd": "cd /repo && /venv/bin/python -m pytest -ra -q -p no:cacheprovider --timeout=900 --continue-on-collection-errors",
            "source_commits": [],
            "add_only": True,
        },
        "engines": [{"name": k, "path": "checks/%s.py" % k, "serves_properties": sorted(v),
                     "kind_free_text": "seeded deterministic simulator with fault injection (own scheduler/seams, fork-per-run zygotes, ddmin, JSON replay)"}
                    for k, v in sorted(engines.items())],
        "checks": checks,
        "notes": "Exit status of every check: 0 held / 1 VIOLATION line / 2 harness error (dead seam, timeout, nondeterministic replay, self-test failure). VERIF_SEED and VERIF_TIER are honoured. Fixes committed to /repo: see known_findings.json ('fixed' entries).",
        "not_applicable": [{"property_id": p_, "reason": r} for p_, r in NOT_APPLICABLE if p_ not in claimed],
    }
    with open(os.path.join(VERIF, "MANIFEST.json"), "w") as f:
        json.dump(doc, f, indent=1)
        f.write("\n")


if __name__ == "__main__":
    main()
