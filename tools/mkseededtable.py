#!/venv/bin/python
"""tools/mkseededtable.py: regenerates the table between <!-- seeded-table-begin --> and <!-- seeded-table-end -->
in DESIGN.md from seeded/*/meta.json (one row per seeded change: what it needs to manifest, which check catches it)."""
import os
import re
import json

VERIF = os.path.dirname(os.path.dirname(os.path.abspath(__file__)))


def label(sid):
    if sid.startswith("a6"):
        return "adversarial r6"
    m = re.match(r"r(\d+)", sid)
    if m:
        return ("adversarial r3" if m.group(1) == "3" else "r" + m.group(1))
    return "r1"


def caught_text(prop, c):
    short = [x.split("/", 1)[1] for x in c.get("classes", [])]
    if c.get("caught"):
        t = "%s %s" % (prop, ", ".join("`%s`" % s for s in short))
        if c.get("note", "").lower().startswith(("missed", "same strengthening")):
            t += " *(after strengthening)*"
        return t
    if c.get("caught_by_thorough"):
        return "%s **thorough tier only** (`served-mismatch`); quick tier misses it" % prop
    if c.get("not_a_violation_under_the_property_model"):
        return "%s not caught - judged not a violation of the property as stated (see meta.json and section 12.4)" % prop
    return "%s **MISSED** (documented limitation)" % prop


def main():
    rows = ["| seeded change | needs, to manifest | caught by |", "|---|---|---|"]
    for sid in sorted(os.listdir(os.path.join(VERIF, "seeded"))):
        mp = os.path.join(VERIF, "seeded", sid, "meta.json")
        if not os.path.exists(mp):
            continue
        m = json.load(open(mp))
        cb = "; ".join(caught_text(p, c) for p, c in sorted(m["caught_by"].items()))
        rows.append("| `%s` (%s) | %s | %s |" % (sid, label(sid), m["needs"].replace("|", "\\|"), cb))
    p = os.path.join(VERIF, "DESIGN.md")
    s = open(p).read()
    a = s.index("<!-- seeded-table-begin -->") + len("<!-- seeded-table-begin -->\n")
    b = s.index("<!-- seeded-table-end -->")
    s = s[:a] + "\n".join(rows) + "\n" + s[b:]
    open(p, "w").write(s)
    print("%d rows" % (len(rows) - 2))


if __name__ == "__main__":
    main()
