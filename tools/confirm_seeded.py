#!/venv/bin/python
"""tools/confirm_seeded.py ID SRC_WORKTREE PROP[,PROP] "needs text"

Confirms a seeded change written by a sub-agent, independently of the agent:
  1. the patch applies to a scratch copy of /repo's working tree (outside /repo and /verif);
  2. the pinned suite passes with it;
  3. the demonstration exits non-zero WITH the change and 0 WITHOUT it;
then stores patch.diff, the demonstration and meta.json under /verif/seeded/ID/ and
runs the quick check(s) of the named properties against the patched copy.
The scratch copy is removed afterwards.
"""
import os
import sys
import json
import shutil
import subprocess
import tempfile

VERIF = os.path.dirname(os.path.dirname(os.path.abspath(__file__)))
PY = "/venv/bin/python"


def run(cmd, **kw):
    return subprocess.run(cmd, capture_output=True, text=True, **kw)


def main():
    sid, src, props, needs = sys.argv[1], sys.argv[2], sys.argv[3].split(","), sys.argv[4]
    patch = os.path.join(src, "patch.diff")
    demo = os.path.join(src, "demo_break.py")
    tmp = tempfile.mkdtemp(prefix="verif-seeded-")
    ran = []
    try:
        for variant in ("with", "without"):
            d = os.path.join(tmp, variant)
            shutil.copytree("/repo", d, ignore=shutil.ignore_patterns(".git", "__pycache__", "*.egg-info"))
            shutil.copy(demo, os.path.join(d, "demo_break.py"))
        w = os.path.join(tmp, "with")
        r = run(["patch", "-p1", "-s", "-i", patch], cwd=w)
        if r.returncode != 0:
            print("PATCH DOES NOT APPLY", r.stdout, r.stderr)
            return 1
        ran.append("patch -p1 < patch.diff on a scratch copy of /repo working tree")
        t = run([PY, "-m", "pytest", "-q", "-p", "no:cacheprovider", "-n", "8", "--deselect",
                 "tests/test_parser.py::TestArgumentParsing::test_invalid_file_argument"], cwd=w)
        suite = t.stdout.strip().splitlines()[-1] if t.stdout.strip() else "?"
        print("suite with change:", suite)
        if t.returncode != 0:
            print(t.stdout[-1500:])
            return 1
        ran.append("pinned suite with the change: " + suite)
        res = {}
        for variant in ("with", "without"):
            d = os.path.join(tmp, variant)
            env = dict(os.environ, PYTHONPATH=d, PYTHONDONTWRITEBYTECODE="1")
            rr = run([PY, "demo_break.py"], cwd=d, env=env, timeout=600)
            res[variant] = rr.returncode
            print("demo %s change: exit %d; %s" % (variant, rr.returncode, (rr.stdout + rr.stderr).strip().splitlines()[-1:] ))
        if res["with"] == 0 or res["without"] != 0:
            print("DEMONSTRATION NOT CONFIRMED", res)
            return 1
        ran.append("demo_break.py: exit %d with the change, exit 0 without it" % res["with"])
        out = os.path.join(VERIF, "seeded", sid)
        os.makedirs(out, exist_ok=True)
        shutil.copy(patch, os.path.join(out, "patch.diff"))
        shutil.copy(demo, os.path.join(out, "demo_break.py"))
        caught = {}
        for prop in props:
            env = dict(os.environ, VERIF_REPO=w, VERIF_OUT=os.path.join(tmp, "out"))
            c = run([os.path.join(VERIF, "check"), prop, "--no-hashseed-selftest"], env=env, timeout=3600)
            viol = [l for l in c.stdout.splitlines() if l.startswith("VIOLATION property=%s " % prop)]
            import re
            classes = sorted(set(re.findall(r"class=(\S+)", "\n".join(viol))))
            caught[prop] = {"exit": c.returncode, "caught": c.returncode == 1 and bool(viol), "classes": classes}
            print("check %s: exit %d %s" % (prop, c.returncode, classes))
            if not caught[prop]["caught"]:
                print("   " + "\n   ".join((c.stdout + c.stderr).splitlines()[-8:]))
            ran.append("./check %s (quick) against the patched copy: exit %d, classes %s" % (prop, c.returncode, classes))
        meta = {"id": sid, "breaks": props, "needs": needs, "written_by": "independent sub-agent (saw only the property "
                "text and its own scratch worktree)", "what_was_run": ran, "caught_by": caught}
        with open(os.path.join(out, "meta.json"), "w") as f:
            json.dump(meta, f, indent=1)
            f.write("\n")
        return 0
    finally:
        shutil.rmtree(tmp, ignore_errors=True)


if __name__ == "__main__":
    sys.exit(main())
