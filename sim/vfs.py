"""In-memory file system behind the os / io / builtins seams (S4).

While installed, every path under the virtual root /simfs -- and, while a CLI
run is active, every *relative* path (virtual cwd /simfs/cwd) -- is served from
memory; everything else goes to the real call.  Linux semantics for what the
CLI can observe: O_EXCL does not follow symlinks, "w" truncates and follows
symlinks, trailing slash on a non-directory -> ENOTDIR/EISDIR, permission bits
of a non-root user, a free-space counter.

Every call made through the seam is a *boundary*: the `on_call` hook (the
environment actor / fault injector) runs before the call takes effect and may
mutate the file system, raise an I/O error or deliver an interrupt.
"""
import io
import os
import stat
import errno
import builtins

ROOT = "/simfs"
CWD = "/simfs/cwd"
FD_BASE = 1000000
FD_STDOUT = FD_BASE - 1        # what the simulated sys.stdout.fileno() returns
FD_STDERR = FD_BASE - 2


class Inode:
    __slots__ = ("kind", "mode", "data", "entries", "target", "created_by", "cli_modified", "ino", "last_writer",
                 "mtime")
    _n = 0

    def __init__(self, kind, mode, created_by, target=None):
        Inode._n += 1
        self.ino = Inode._n
        self.kind = kind              # "dir" | "file" | "link"
        self.mode = mode
        self.data = b"" if kind == "file" else None
        self.entries = {} if kind == "dir" else None
        self.target = target
        self.created_by = created_by  # "pre" | "env" | "cli"
        self.cli_modified = False
        self.last_writer = created_by
        import time as _t
        # simulated clock (time.time is pinned while a run is active); what existed before the run is a day old
        self.mtime = _t.time() - (86400.0 if created_by == "pre" else 0.0)


def _err(code, path=None):
    return OSError(code, os.strerror(code), path)


class VFS:
    def __init__(self):
        Inode._n = 0
        self.root = Inode("dir", 0o755, "pre")
        self.actor = "pre"              # who is performing calls right now: pre | env | cli
        self.free = 1 << 30
        self.uid_root = False           # simulated user is not root: permission bits matter
        self.log = []                   # (actor, call, path, result)
        self.on_call = None             # hook(name, path) called before each CLI-made call
        self.active = False             # CLI run in progress => relative paths are virtual
        self.violations = []            # clobber events observed at the seam
        self.fds = {}
        self.std_streams = {}           # reserved fd -> simulated stream object (set by the CLI runner)
        self._next_fd = FD_BASE
        self._saved = []
        self.mkdir_p(CWD)

    # ------------------------------------------------------------------ path handling
    def is_virtual(self, path):
        if isinstance(path, int):
            return path >= FD_BASE - 2
        try:
            p = os.fspath(path)
        except TypeError:
            return False
        if isinstance(p, bytes):
            p = p.decode("utf-8", "surrogateescape")
        if p == ROOT or p.startswith(ROOT + "/"):
            return True
        return self.active and not p.startswith("/")

    def _norm(self, path):
        p = os.fspath(path)
        if isinstance(p, bytes):
            p = p.decode("utf-8", "surrogateescape")
        if p == "":
            raise _err(errno.ENOENT, p)
        if not p.startswith("/"):
            p = CWD + "/" + p
        return p

    def _walk(self, path, follow=True, parent=False, depth=0):
        """Resolve to (dir_inode, name, inode_or_None, trailing_slash). Raises ENOENT/ENOTDIR/ELOOP/EACCES."""
        if depth > 40:
            raise _err(errno.ELOOP, path)
        p = self._norm(path)
        trailing = p.endswith("/") and p != "/"
        parts = [x for x in p.split("/") if x not in ("", ".")]
        # resolve ".." lexically against the resolved directory chain
        stack = [self.root]
        names = []
        i = 0
        if not parts:
            return None, "", self.root, trailing
        while i < len(parts):
            name = parts[i]
            last = i == len(parts) - 1
            cur = stack[-1]
            if cur.kind != "dir":
                raise _err(errno.ENOTDIR, p)
            if not (cur.mode & 0o100) and not self.uid_root:
                raise _err(errno.EACCES, p)
            if name == "..":
                if len(stack) > 1:
                    stack.pop()
                    names.pop()
                i += 1
                if last:
                    return (stack[-2] if len(stack) > 1 else None), (names[-1] if names else ""), stack[-1], trailing
                continue
            node = cur.entries.get(name)
            if last:
                if node is not None and node.kind == "link" and (follow or trailing):
                    tgt = node.target
                    if not tgt.startswith("/"):
                        tgt = "/" + "/".join(names) + "/" + tgt
                    return self._walk(tgt + ("/" if trailing else ""), follow, parent, depth + 1)
                return cur, name, node, trailing
            if node is None:
                raise _err(errno.ENOENT, p)
            if node.kind == "link":
                tgt = node.target
                if not tgt.startswith("/"):
                    tgt = "/" + "/".join(names) + "/" + tgt
                rest = "/".join(parts[i + 1:])
                return self._walk(tgt + "/" + rest + ("/" if trailing else ""), follow, parent, depth + 1)
            stack.append(node)
            names.append(name)
            i += 1
        return None, "", stack[-1], trailing

    # ------------------------------------------------------------------ direct manipulation (pre / env)
    def mkdir_p(self, path, mode=0o755, by=None):
        cur = self.root
        for name in [x for x in path.split("/") if x]:
            nxt = cur.entries.get(name)
            if nxt is None:
                nxt = Inode("dir", mode, by or self.actor)
                cur.entries[name] = nxt
            cur = nxt
        return cur

    def put_file(self, path, data, mode=0o644, by=None):
        d, name, node, _ = self._walk(path, follow=False)
        if node is None:
            node = Inode("file", mode, by or self.actor)
            d.entries[name] = node
        node.data = data
        node.last_writer = by or self.actor
        return node

    def put_link(self, path, target, by=None):
        d, name, node, _ = self._walk(path, follow=False)
        d.entries[name] = Inode("link", 0o777, by or self.actor, target=target)

    def remove(self, path):
        d, name, node, _ = self._walk(path, follow=False)
        if node is not None:
            del d.entries[name]

    def snapshot(self):
        """path -> (kind, ino, created_by, data/target, cli_modified) for every node."""
        out = {}

        def rec(node, path):
            for name in sorted(node.entries):
                ch = node.entries[name]
                p = path + "/" + name
                if ch.kind == "dir":
                    out[p] = ("dir", ch.ino, ch.created_by, None, ch.cli_modified, ch.mode)
                    rec(ch, p)
                elif ch.kind == "file":
                    out[p] = ("file", ch.ino, ch.created_by, ch.data, ch.cli_modified, ch.mode)
                else:
                    out[p] = ("link", ch.ino, ch.created_by, ch.target, ch.cli_modified, ch.mode)
        rec(self.root, "")
        return out

    # ------------------------------------------------------------------ the boundary hook
    def _boundary(self, name, path):
        if self.actor == "cli" and self.on_call is not None:
            self.on_call(name, path)

    def _logcall(self, name, path, res):
        if self.actor == "cli":
            self.log.append([name, str(path), res])

    # ------------------------------------------------------------------ os-level operations
    def stat(self, path, follow=True):
        self._boundary("stat" if follow else "lstat", path)
        try:
            d, name, node, trailing = self._walk(path, follow=follow)
            if node is None:
                raise _err(errno.ENOENT, os.fspath(path))
            if trailing and node.kind != "dir":
                raise _err(errno.ENOTDIR, os.fspath(path))
        except OSError as e:
            self._logcall("stat", path, errno.errorcode.get(e.errno, "?"))
            raise
        self._logcall("stat", path, node.kind)
        fmt = {"dir": stat.S_IFDIR, "file": stat.S_IFREG, "link": stat.S_IFLNK}[node.kind]
        size = len(node.data) if node.kind == "file" else 0
        t_ = int(node.mtime)
        return os.stat_result((fmt | node.mode, node.ino, 99, 1, 1000, 1000, size, t_, t_, t_))

    def access(self, path, mode):
        self._boundary("access", path)
        try:
            d, name, node, trailing = self._walk(path, follow=True)
        except OSError:
            self._logcall("access", path, False)
            return False
        if node is None:
            self._logcall("access", path, False)
            return False
        ok = True
        if not self.uid_root:
            if mode & os.R_OK and not node.mode & 0o400:
                ok = False
            if mode & os.W_OK and not node.mode & 0o200:
                ok = False
            if mode & os.X_OK and not node.mode & 0o100:
                ok = False
        self._logcall("access", path, ok)
        return ok

    def _open_node(self, path, flags, mode=0o644, py=False):
        """POSIX open(2) semantics; returns the file inode."""
        creat = bool(flags & os.O_CREAT)
        excl = bool(flags & os.O_EXCL)
        wr = (flags & os.O_ACCMODE) in (os.O_WRONLY, os.O_RDWR)
        nofollow = bool(flags & getattr(os, "O_NOFOLLOW", 0))
        p = os.fspath(path)
        if isinstance(p, bytes):
            p = p.decode()
        d, name, node, trailing = self._walk(p, follow=not (creat and excl) and not nofollow)
        if node is not None and node.kind == "link":
            if creat and excl:
                raise _err(errno.EEXIST, p)
            if nofollow:
                raise _err(errno.ELOOP, p)
        if node is None:
            if not creat:
                raise _err(errno.ENOENT, p)
            if trailing:
                raise _err(errno.EISDIR, p)
            if d is None or d.kind != "dir":
                raise _err(errno.ENOTDIR, p)
            if not self.uid_root and (d.mode & 0o300) != 0o300:
                raise _err(errno.EACCES, p)
            node = Inode("file", mode & 0o777, self.actor)
            d.entries[name] = node
            return node
        if creat and excl:
            raise _err(errno.EEXIST, p)
        if node.kind == "dir":
            if wr or creat or py:
                raise _err(errno.EISDIR, p)
            return node                      # os.open(dir, O_RDONLY) is legal (directory descriptor)
        if trailing:
            raise _err(errno.ENOTDIR, p)
        if not self.uid_root:
            if wr and not node.mode & 0o200:
                raise _err(errno.EACCES, p)
            if (flags & os.O_ACCMODE) in (os.O_RDONLY, os.O_RDWR) and not node.mode & 0o400:
                raise _err(errno.EACCES, p)
        if flags & os.O_TRUNC and wr:
            self._touch(node, "truncate", p)
            node.data = b""
        return node

    def _touch(self, node, what, path):
        node.last_writer = self.actor
        import time as _t
        node.mtime = _t.time()
        if self.actor == "cli":
            if node.created_by != "cli":
                if not node.cli_modified:
                    self.violations.append({"what": what, "path": str(path), "owner": node.created_by})
                node.cli_modified = True

    def os_open(self, path, flags, mode=0o777, *, dir_fd=None):
        self._boundary("open", path)
        try:
            node = self._open_node(path, flags, mode)
        except OSError as e:
            self._logcall("open", path, errno.errorcode.get(e.errno, "?"))
            raise
        self._logcall("open", path, "ok flags=%o" % flags)
        fd = self._next_fd
        self._next_fd += 1
        self.fds[fd] = {"node": node, "pos": len(node.data) if (flags & os.O_APPEND and node.kind == "file") else 0, "flags": flags,
                        "path": str(path)}
        return fd

    def write_node(self, node, pos, data, path):
        self._boundary("write", path)
        self._touch(node, "write", path)
        room = self.free
        chunk = data[:room] if room < len(data) else data
        buf = node.data
        if pos > len(buf):
            buf = buf + b"\x00" * (pos - len(buf))
        node.data = buf[:pos] + chunk + buf[pos + len(chunk):]
        self.free -= len(chunk)
        self._logcall("write", path, len(chunk))
        if len(chunk) < len(data):
            raise _err(errno.ENOSPC, path)
        return len(chunk)

    def os_write(self, fd, data):
        if fd in self.std_streams:
            self.std_streams[fd].write(bytes(data).decode("utf-8", "replace"))
            return len(data)
        h = self.fds[fd]
        n = self.write_node(h["node"], h["pos"], bytes(data), h["path"])
        h["pos"] += n
        return n

    def os_close(self, fd):
        if fd in self.std_streams:
            self.std_streams[fd].redirected = "closed"
            return None
        h = self.fds.get(fd)
        if h is None:
            raise _err(errno.EBADF)
        self._boundary("close", h["path"])
        del self.fds[fd]
        self._logcall("close", h["path"], "ok")

    def replace(self, src, dst):
        self._boundary("rename", dst)
        sd, sname, snode, _ = self._walk(src, follow=False)
        if snode is None:
            raise _err(errno.ENOENT, os.fspath(src))
        dd, dname, dnode, dtrail = self._walk(dst, follow=False)
        if dd is None or dd.kind != "dir":
            raise _err(errno.ENOTDIR, os.fspath(dst))
        if dtrail and snode.kind != "dir":
            raise _err(errno.ENOTDIR, os.fspath(dst))
        if not self.uid_root and ((dd.mode & 0o300) != 0o300 or (sd.mode & 0o300) != 0o300):
            raise _err(errno.EACCES, os.fspath(dst))
        if dnode is not None:
            if dnode.kind == "dir" and snode.kind != "dir":
                raise _err(errno.EISDIR, os.fspath(dst))
            if self.actor == "cli" and dnode.created_by != "cli":
                self.violations.append({"what": "rename-over", "path": str(dst), "owner": dnode.created_by})
        del sd.entries[sname]
        dd.entries[dname] = snode
        self._logcall("rename", dst, "ok")

    def link(self, src, dst):
        self._boundary("link", dst)
        sd, sname, snode, _ = self._walk(src, follow=False)
        if snode is None:
            raise _err(errno.ENOENT, os.fspath(src))
        dd, dname, dnode, dtrail = self._walk(dst, follow=False)
        if dnode is not None:
            raise _err(errno.EEXIST, os.fspath(dst))
        if dtrail:
            raise _err(errno.ENOENT, os.fspath(dst))
        if not self.uid_root and (dd.mode & 0o300) != 0o300:
            raise _err(errno.EACCES, os.fspath(dst))
        dd.entries[dname] = snode
        self._logcall("link", dst, "ok")

    def unlink(self, path):
        self._boundary("unlink", path)
        d, name, node, _ = self._walk(path, follow=False)
        if node is None:
            raise _err(errno.ENOENT, os.fspath(path))
        if node.kind == "dir":
            raise _err(errno.EISDIR, os.fspath(path))
        if not self.uid_root and (d.mode & 0o300) != 0o300:
            raise _err(errno.EACCES, os.fspath(path))
        if self.actor == "cli" and node.created_by != "cli":
            self.violations.append({"what": "unlink", "path": str(path), "owner": node.created_by})
        del d.entries[name]
        self._logcall("unlink", path, "ok")

    def mkdir(self, path, mode=0o777):
        self._boundary("mkdir", path)
        d, name, node, _ = self._walk(path, follow=False)
        if node is not None:
            raise _err(errno.EEXIST, os.fspath(path))
        if not self.uid_root and (d.mode & 0o300) != 0o300:
            raise _err(errno.EACCES, os.fspath(path))
        d.entries[name] = Inode("dir", mode & 0o777, self.actor)

    def listdir(self, path="."):
        self._boundary("listdir", path)
        d, name, node, _ = self._walk(path)
        if node is None:
            raise _err(errno.ENOENT, os.fspath(path))
        if node.kind != "dir":
            raise _err(errno.ENOTDIR, os.fspath(path))
        return sorted(node.entries)

    # ------------------------------------------------------------------ Python-level open()
    def py_open(self, file, mode="r", buffering=-1, encoding=None, errors=None, newline=None, closefd=True,
                opener=None):
        if isinstance(file, int):
            h = self.fds[file]
            return VFile(self, h["node"], h["path"], mode, h["pos"], fd=file)
        m = set(mode)
        flags = 0
        if "+" in m:
            flags |= os.O_RDWR
        elif m & set("wxa"):
            flags |= os.O_WRONLY
        else:
            flags |= os.O_RDONLY
        if "w" in m:
            flags |= os.O_CREAT | os.O_TRUNC
        if "x" in m:
            flags |= os.O_CREAT | os.O_EXCL
        if "a" in m:
            flags |= os.O_CREAT | os.O_APPEND
        self._boundary("open", file)
        try:
            if opener is not None:
                fd = opener(file, flags)
                h = self.fds[fd]
                node = h["node"]
            else:
                node = self._open_node(file, flags, 0o644, py=True)
        except OSError as e:
            self._logcall("open", file, errno.errorcode.get(e.errno, "?"))
            raise
        self._logcall("open", file, "ok mode=%s" % mode)
        return VFile(self, node, str(file), mode, len(node.data) if "a" in m else 0)

    # ------------------------------------------------------------------ install / uninstall
    def install(self):
        v = self
        o = {n: getattr(os, n) for n in ("stat", "lstat", "access", "open", "write", "close", "replace", "rename",
                                          "remove", "unlink", "mkdir", "listdir", "fdopen", "link", "fsync", "chmod",
                                          "readlink", "symlink", "dup2", "makedirs")}
        o_open, o_ioopen = builtins.open, io.open
        self._orig = o

        def w_stat(path, *a, dir_fd=None, follow_symlinks=True):
            if v.is_virtual(path) and not isinstance(path, int):
                return v.stat(path, follow=follow_symlinks)
            return o["stat"](path, *a, dir_fd=dir_fd, follow_symlinks=follow_symlinks)

        def w_lstat(path, *a, dir_fd=None):
            if v.is_virtual(path):
                return v.stat(path, follow=False)
            return o["lstat"](path, *a, dir_fd=dir_fd)

        def w_access(path, mode, *a, **kw):
            if v.is_virtual(path):
                return v.access(path, mode)
            return o["access"](path, mode, *a, **kw)

        def w_osopen(path, flags, mode=0o777, *a, dir_fd=None):
            if v.is_virtual(path):
                return v.os_open(path, flags, mode)
            return o["open"](path, flags, mode, *a, dir_fd=dir_fd)

        def w_write(fd, data):
            if v.is_virtual(fd):
                return v.os_write(fd, data)
            return o["write"](fd, data)

        def w_close(fd):
            if v.is_virtual(fd):
                return v.os_close(fd)
            return o["close"](fd)

        def w_fsync(fd):
            if v.is_virtual(fd):
                return None
            return o["fsync"](fd)

        def w_replace(src, dst, *a, **kw):
            if v.is_virtual(src) or v.is_virtual(dst):
                return v.replace(src, dst)
            return o["replace"](src, dst, *a, **kw)

        def w_link(src, dst, *a, **kw):
            if v.is_virtual(src) or v.is_virtual(dst):
                return v.link(src, dst)
            return o["link"](src, dst, *a, **kw)

        def w_unlink(path, *a, **kw):
            if v.is_virtual(path):
                return v.unlink(path)
            return o["unlink"](path, *a, **kw)

        def w_mkdir(path, mode=0o777, *a, **kw):
            if v.is_virtual(path):
                return v.mkdir(path, mode)
            return o["mkdir"](path, mode, *a, **kw)

        def w_listdir(path="."):
            if v.is_virtual(path):
                return v.listdir(path)
            return o["listdir"](path)

        def w_chmod(path, mode, *a, **kw):
            if v.is_virtual(path):
                d, name, node, _ = v._walk(path)
                if node is None:
                    raise _err(errno.ENOENT, os.fspath(path))
                node.mode = mode & 0o777
                return None
            return o["chmod"](path, mode, *a, **kw)

        def w_fdopen(fd, *a, **kw):
            if v.is_virtual(fd):
                mode = a[0] if a else kw.get("mode", "r")
                return v.py_open(fd, mode)
            return o["fdopen"](fd, *a, **kw)

        def w_dup2(fd, fd2, inheritable=True):
            if fd2 in v.std_streams:
                # e.g. the documented SIGPIPE recipe: os.dup2(devnull, sys.stdout.fileno())
                v.std_streams[fd2].redirected = "fd %r" % (fd,)
                return fd2
            return o["dup2"](fd, fd2, inheritable)

        def w_readlink(path, *a, **kw):
            if v.is_virtual(path):
                d, name, node, _ = v._walk(path, follow=False)
                if node is None:
                    raise _err(errno.ENOENT, os.fspath(path))
                if node.kind != "link":
                    raise _err(errno.EINVAL, os.fspath(path))
                return node.target
            return o["readlink"](path, *a, **kw)

        def w_symlink(src, dst, *a, **kw):
            if v.is_virtual(dst):
                v._boundary("symlink", dst)
                d, name, node, _ = v._walk(dst, follow=False)
                if node is not None:
                    raise _err(errno.EEXIST, os.fspath(dst))
                d.entries[name] = Inode("link", 0o777, v.actor, target=os.fspath(src))
                return None
            return o["symlink"](src, dst, *a, **kw)

        def w_open(file, *a, **kw):
            if v.is_virtual(file):
                return v.py_open(file, *a, **kw)
            return o_open(file, *a, **kw)

        patches = [(os, "stat", w_stat), (os, "lstat", w_lstat), (os, "access", w_access), (os, "open", w_osopen),
                   (os, "write", w_write), (os, "close", w_close), (os, "replace", w_replace),
                   (os, "rename", w_replace), (os, "remove", w_unlink), (os, "unlink", w_unlink),
                   (os, "mkdir", w_mkdir), (os, "listdir", w_listdir), (os, "fdopen", w_fdopen),
                   (os, "link", w_link), (os, "fsync", w_fsync), (os, "chmod", w_chmod), (os, "dup2", w_dup2),
                   (os, "readlink", w_readlink), (os, "symlink", w_symlink),
                   (builtins, "open", w_open), (io, "open", w_open)]
        for mod, name, fn in patches:
            self._saved.append((mod, name, getattr(mod, name)))
            setattr(mod, name, fn)

    def uninstall(self):
        for mod, name, val in reversed(self._saved):
            setattr(mod, name, val)
        self._saved = []


class VFile:
    """File object over a VFS inode (text or binary)."""

    def __init__(self, vfs, node, path, mode, pos, fd=None):
        self.vfs = vfs
        self.node = node
        self.name = path
        self.mode = mode
        self.pos = pos
        self.binary = "b" in mode
        self.closed = False
        self.fd = fd
        self.encoding = None if self.binary else "utf-8"
        self._can_write = bool(set(mode) & set("wxa+"))
        self._can_read = "r" in mode or "+" in mode

    def __enter__(self):
        return self

    def __exit__(self, et, ev, tb):
        self.close()
        return False

    def writable(self):
        return self._can_write

    def readable(self):
        return self._can_read

    def seekable(self):
        return True

    def fileno(self):
        if self.fd is None:
            self.fd = self.vfs._next_fd
            self.vfs._next_fd += 1
            self.vfs.fds[self.fd] = {"node": self.node, "pos": self.pos, "flags": 0, "path": self.name}
        return self.fd

    def write(self, s):
        if self.closed:
            raise ValueError("I/O operation on closed file.")
        if not self._can_write:
            raise io.UnsupportedOperation("not writable")
        if self.binary:
            data = bytes(s)
        else:
            if not isinstance(s, str):
                raise TypeError("write() argument must be str, not %s" % type(s).__name__)
            data = s.encode("utf-8")
        n = self.vfs.write_node(self.node, self.pos, data, self.name)
        self.pos += n
        return len(s)

    def writelines(self, lines):
        for ln in lines:
            self.write(ln)

    def read(self, n=-1):
        if not self._can_read:
            raise io.UnsupportedOperation("not readable")
        data = self.node.data[self.pos:] if n is None or n < 0 else self.node.data[self.pos:self.pos + n]
        self.pos += len(data)
        return data if self.binary else data.decode("utf-8")

    def seek(self, off, whence=0):
        if whence == 0:
            self.pos = off
        elif whence == 1:
            self.pos += off
        else:
            self.pos = len(self.node.data) + off
        return self.pos

    def tell(self):
        return self.pos

    def truncate(self, size=None):
        size = self.pos if size is None else size
        self.vfs._touch(self.node, "truncate", self.name)
        self.node.data = self.node.data[:size]
        return size

    def flush(self):
        if self.closed:
            raise ValueError("I/O operation on closed file.")

    def close(self):
        if self.closed:
            return
        self.closed = True
        self.vfs._boundary("close", self.name)
        if self.fd is not None:
            self.vfs.fds.pop(self.fd, None)
        self.vfs._logcall("close", self.name, "ok")
