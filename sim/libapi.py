"""Thin layer between simulators and the library under test: root catalogue,
wallet construction from a self-contained root spec, canonical observations.

Everything the library computes is reached through its public API only.
Root specs are constants derived with the harness's own reference model, so a
replay file is self-contained and does not depend on library output.
"""
import hashlib
import unicodedata

from .ref import bip32 as rb

HARD = 2 ** 31

MN12 = "abandon abandon abandon abandon abandon abandon abandon abandon abandon abandon abandon about"
MN24 = ("abandon abandon abandon abandon abandon abandon abandon abandon abandon abandon abandon "
        "abandon abandon abandon abandon abandon abandon abandon abandon abandon abandon abandon "
        "abandon art")
PW_B = "pässwörd-ξ"


def ref_seed(mnemonic, password=""):
    m = unicodedata.normalize("NFKD", mnemonic).encode()
    s = ("mnemonic" + unicodedata.normalize("NFKD", password)).encode()
    return hashlib.pbkdf2_hmac("sha512", m, s, 2048)


def _roots():
    a = rb.master(ref_seed(MN12))
    b = rb.master(ref_seed(MN24, PW_B), testnet=True)
    c_seed = bytes(range(64))
    d = rb.master(b"\x5a" * 32)
    a_acct = rb.derive(a, [44 + HARD, HARD, HARD])
    a84 = rb.derive(a, [84 + HARD, HARD, HARD])
    b_chain = rb.derive(b, [84 + HARD, 1 + HARD, HARD, 0])
    b44 = rb.derive(b, [44 + HARD, 1 + HARD, HARD])
    return {
        "A": {"kind": "mnemonic", "mnemonic": MN12, "password": "", "testnet": False},
        "B": {"kind": "mnemonic", "mnemonic": MN24, "password": PW_B, "testnet": True},
        "C": {"kind": "seed", "seed_hex": c_seed.hex(), "testnet": False},
        "D": {"kind": "xkey", "key": d.xprv()},
        "E": {"kind": "xkey", "key": a_acct.xpub()},                       # watch-only, account level
        "F": {"kind": "xkey", "key": b_chain.xpub(rb.VERSIONS["vpub"][0])},  # watch-only, chain level, vpub
        "G": {"kind": "xkey", "key": a84.xpub(rb.VERSIONS["zpub"][0])},    # watch-only, zpub
        # private imports of nodes that are ALSO derived nodes of A / B (same key material reached two ways)
        "H": {"kind": "xkey", "key": a84.xprv(rb.VERSIONS["zprv"][0])},    # = A at m/84'/0'/0'
        "I": {"kind": "xkey", "key": a_acct.xprv()},                       # = A at m/44'/0'/0'
        "J": {"kind": "xkey", "key": b44.xprv(rb.VERSIONS["tprv"][0])},    # = B at m/44'/1'/0'
    }
# (root, path of the same key inside another root): used to steer workloads towards cross-wallet collisions
ALIASES = {"E": ("A", [44 + HARD, HARD, HARD]), "G": ("A", [84 + HARD, HARD, HARD]), "H": ("A", [84 + HARD, HARD, HARD]),
           "I": ("A", [44 + HARD, HARD, HARD]), "F": ("B", [84 + HARD, 1 + HARD, HARD, 0]),
           "J": ("B", [44 + HARD, 1 + HARD, HARD])}


ROOTS = _roots()
PRIVATE_ROOTS = ("A", "B", "C", "D", "H", "I", "J")
PUBLIC_ROOTS = ("E", "F", "G")


def build_wallet(spec):
    from btc_hd_wallet.paper_wallet import PaperWallet
    k = spec["kind"]
    if k == "mnemonic":
        return PaperWallet.from_mnemonic(mnemonic=spec["mnemonic"], password=spec["password"],
                                         testnet=spec["testnet"])
    if k == "seed":
        return PaperWallet.from_bip39_seed_hex(bip39_seed=spec["seed_hex"], testnet=spec["testnet"])
    if k == "xkey":
        return PaperWallet.from_extended_key(extended_key=spec["key"])
    raise ValueError(k)


def is_private(spec):
    if spec["kind"] != "xkey":
        return True
    return spec["key"][1:4] == "prv"


def canon_node(n):
    """Canonical observation of a node: value fields and the strings it prints."""
    from btc_hd_wallet.bip32 import PrvKeyNode
    prv = isinstance(n, PrvKeyNode)
    d = {
        "type": type(n).__name__,
        "key": (bytes(n.private_key).hex() if prv else bytes(n.key).hex()),
        "chain_code": bytes(n.chain_code).hex(),
        "depth": n.depth,
        "index": n.index,
        "pfp": bytes(n.parent_fingerprint).hex(),
        "testnet": bool(n.testnet),
        "str": str(n),
        "xpub": n.extended_public_key(),
        "xprv": n.extended_private_key() if prv else None,
    }
    return d


def exc_obs(e):
    return {"exc": type(e).__name__}


def jsonable(v):
    if isinstance(v, (bytes, bytearray)):
        return {"hex": bytes(v).hex()}
    if isinstance(v, (list, tuple)):
        return [jsonable(x) for x in v]
    if isinstance(v, dict):
        return {str(k): jsonable(x) for k, x in v.items()}
    if v is None or isinstance(v, (str, int, float, bool)):
        return v
    return {"repr": repr(v)}


ADDR_FNS = ("p2pkh_address", "p2wpkh_address", "p2sh_p2wpkh_address", "p2wsh_address", "p2sh_p2wsh_address")


def value_op(w, node, q):
    """Evaluate a value request q on (wallet, node). Shared by the in-history
    executor (shared objects) and the isolated oracle (fresh objects)."""
    op = q["op"]
    if op == "node":
        return canon_node(node)
    if op == "addr":
        return getattr(w, q["fn"])(node)
    if op == "ext_keys":
        return jsonable(w.node_extended_keys(node))
    if op == "xpub":
        return node.extended_public_key(version=q.get("version"))
    if op == "xprv":
        return node.extended_private_key(version=q.get("version"))
    if op == "str":
        return str(node)
    if op == "fingerprint":
        return bytes(node.fingerprint()).hex()
    if op == "pfp":
        return bytes(node.parent_fingerprint).hex()
    if op == "gen_item":
        return [str(node), getattr(w, q["fn"])(node)]
    if op == "bip85":
        app = q["app"]
        if app == "mnemonic":
            return w.bip85.bip39_mnemonic(word_count=q["a"], index=q["i"])
        if app == "wif":
            return w.bip85.wif(index=q["i"])
        if app == "xprv":
            return w.bip85.xprv(index=q["i"])
        if app == "hex":
            return w.bip85.hex(num_bytes=q["a"], index=q["i"])
        if app == "pwd":
            return w.bip85.pwd(pwd_len=q["a"], index=q["i"])
        raise ValueError(app)
    if op == "paper":
        which = q["which"]
        iv = tuple(q["interval"])
        if which == "generate":
            return jsonable(w.generate(account=q["account"], interval=iv))
        if which == "wasabi":
            return w.wasabi_json()
        if which == "json":
            return w.json(data=w.generate(account=q["account"], interval=iv), indent=2)
        return jsonable(getattr(w, which)(account=q["account"], interval=iv))
    if op == "by_path":
        return canon_node(w.by_path(q["s"]))
    raise ValueError("unknown op %r" % op)


def eval_isolated(query):
    """The same request on fresh objects (to be called in a freshly forked child
    of a zygote that has never executed a library operation)."""
    try:
        w = build_wallet(query["root"])
        node = w.master
        if query.get("path"):
            node = w.master.derive_path(index_list=list(query["path"]))
        if query["op"] == "scan":
            ns = node.generate_children(interval=tuple(query["interval"]))
            return {"n": len(ns), "first": canon_node(ns[0]), "last": canon_node(ns[-1])}
        if query["op"] == "children":
            return [canon_node(c) for c in node.generate_children(interval=tuple(query["interval"]))]
        return value_op(w, node, query)
    except Exception as e:  # documented refusals compare by type
        return exc_obs(e)
