"""Baton scheduler: real threads, exactly one runs at a time; every line (or
instruction) event in the library's own code objects is a pre-emption point at which a
seeded policy -- or a literal recorded schedule -- decides who runs next.

The decision log is the schedule part of a replay file:
    ["start", to]                          who runs first
    ["s", op_id, k, to, from, site]        at the k-th pre-emption point inside operation
                                           op_id hand the baton to client `to`
    ["f", from, to]                        client `from` finished; `to` continues
Hand-overs are keyed by (operation id, local step), not by a global counter, so
dropping unrelated operations while shrinking leaves the rest of the schedule
meaningful.  In literal mode a decision whose target is not runnable is ignored
and a finishing client without a recorded successor hands over to the
lowest-numbered runnable client, so every shrunk schedule is still executable.
"""
import os
import sys
import time
import random
import _thread
import threading

_ACTIVE = [None]          # the Baton of the simulation in progress (locks created by the library consult it)
_ORIG_LOCK = _thread.allocate_lock
_ORIG_RLOCK = threading.RLock


class _Gate:
    """Binary semaphore on a raw lock (the scheduler's own hand-over primitive; never a SimLock)."""

    def __init__(self):
        self._l = _ORIG_LOCK()
        self._l.acquire()

    def release(self):
        self._l.release()

    def acquire(self):
        self._l.acquire()


class _Flag:
    def __init__(self):
        self._g = _Gate()
        self._set = False

    def set(self):
        if not self._set:
            self._set = True
            self._g.release()

    def wait(self, timeout):
        ok = self._g._l.acquire(True, timeout)
        if ok:
            self._g._l.release()
        return ok


class SimLock:
    """threading.Lock / RLock as seen by the library under simulation. Outside a simulation (or in a thread that is
    not a simulated client) it is a plain lock. Inside, a client that finds it held does not block the process:
    it hands the baton to another runnable client and tries again when it gets the baton back, so a repair that
    adds locks stays schedulable (and a genuine dead-lock is reported as such instead of hanging)."""

    def __init__(self, reentrant=False):
        self._real = _ORIG_LOCK()
        self._re = reentrant
        self._owner = None
        self._count = 0

    def acquire(self, blocking=True, timeout=-1):
        me = _thread.get_ident()
        if self._re and self._owner == me:
            self._count += 1
            return True
        b = _ACTIVE[0]
        cid = b.tid2cid.get(me) if b is not None and getattr(b, "tid2cid", None) is not None else None
        if cid is None:
            ok = self._real.acquire(blocking, timeout) if blocking else self._real.acquire(False)
        else:
            ok = self._real.acquire(False)
            while not ok and blocking:
                b.lock_blocked(cid, self)
                ok = self._real.acquire(False)
        if ok:
            self._owner = me
            self._count = 1
        return ok

    __enter__ = acquire

    def release(self):
        if self._re:
            if self._owner != _thread.get_ident():
                raise RuntimeError("cannot release un-acquired lock")
            self._count -= 1
            if self._count > 0:
                return
        self._owner = None
        self._real.release()

    def __exit__(self, *a):
        self.release()

    def locked(self):
        return self._real.locked()

    def _at_fork_reinit(self):
        self._real = _ORIG_LOCK()
        self._owner = None
        self._count = 0

    # what threading.Condition looks for
    def _is_owned(self):
        return self._owner == _thread.get_ident()

    def _release_save(self):
        st = (self._count, self._owner)
        self._count, self._owner = 0, None
        self._real.release()
        return st

    def _acquire_restore(self, st):
        self.acquire()
        self._count, self._owner = st


def install_lock_seam():
    """Make threading.Lock()/RLock() hand out SimLocks. Called before the library is imported, so module-level
    locks are covered too. The scheduler's own primitives use raw locks and are unaffected."""
    if getattr(threading, "_verif_lock_seam", False):
        return
    threading.Lock = lambda: SimLock(False)
    threading.RLock = lambda: SimLock(True)
    threading._verif_lock_seam = True


class Baton:
    def __init__(self, n, sched, weights, opcode_files=(), step_cap=200000):
        self.n = n
        self.sems = [_Gate() for _ in range(n)]
        self.done = [False] * n
        self.started = False
        self.current = None
        self.E = 0
        self.log = []
        self.weights = weights            # filename -> weight (only these files are traced)
        self.opcode_files = set(opcode_files)
        self.step_cap = step_cap
        self.cap_hit = False
        self.all_done = _Flag()
        self.mode = sched.get("mode", "seeded")
        self.policy = sched.get("policy", "bernoulli")
        self.p = sched.get("p", 0.05)
        self.p_op = sched.get("p_op", 0.5)
        self.rng = random.Random(sched.get("sched_seed", 0))
        self.points = set(sched.get("points", []))
        # "atomic" policy: site-uniform atomicity tests. A site whose crc32 falls in the seeded residue class is
        # pre-empted at its k-th execution; another client then runs until it completes an operation and the
        # baton returns. Covers "operation B runs entirely inside a one-line window of operation A" for every
        # distinct line, not in proportion to how often the line executes.
        self.atom_mod = sched.get("mod", 40)
        self.atom_res = sched.get("res", 0)
        self.atom_k = sched.get("k", 1)
        self.site_hits = {}
        self.return_to = None
        self._pub_cache = {}
        self.after_pub = [False] * n             # per client: the previous line of this client was a publication site
        self.literal = {}
        self.first = sched.get("first")
        if self.mode == "literal":
            for ent in sched.get("log", []):
                kind = ent[0]
                if kind == "start":
                    self.first = ent[1]
                elif kind == "s":
                    self.literal[(ent[1], ent[2])] = ent[3]
                elif kind == "l":
                    self.literal[("l", ent[1], ent[2])] = ent[3]
                elif kind == "f":
                    self.literal[("f", ent[1])] = ent[2]
        self.next_obj = [None] * n               # per client: object (handle) of the operation it will start next
        self.next_kind = [None] * n              # ... and its kind
        self.cur_op = [None] * n                 # per client: id of the op in flight
        self.local_e = [0] * n                   # per client: pre-emption points seen inside it
        # instrumentation for reach probes
        self.in_ckd = [[] for _ in range(n)]     # per client: stack of id(parent) inside ckd
        self.op_in_flight = [None] * n           # per client: (kind, handle) of the op being executed
        self.probes = {}
        self.pairs = set()
        self.switch_sites = []
        self.line_events = 0
        self.errors = []

    # ---------------------------------------------------------------- helpers
    def _runnable(self, exclude=None):
        return [c for c in range(self.n) if not self.done[c] and c != exclude]

    def _probe(self, name, k=1):
        self.probes[name] = self.probes.get(name, 0) + k

    def start(self):
        run = self._runnable()
        if not run:
            self.all_done.set()
            return
        if self.mode == "literal":
            to = self.first if self.first in run else run[0]
        else:
            to = self.rng.choice(run)
        self.log.append(["start", to])
        self.current = to
        self.sems[to].release()

    def begin_op(self, cid, op_id):
        self.cur_op[cid] = op_id
        self.local_e[cid] = 0

    def _switch(self, cid, to, site):
        self.log.append(["s", self.cur_op[cid], self.local_e[cid], to, cid, site])
        # reach probes at the moment of the switch
        fa, fb = self.op_in_flight[cid], self.op_in_flight[to]
        if fa is not None:
            same = bool(fb is not None and fa[1] is not None and fa[1] == fb[1])
            self.pairs.add("%s|%s|%s" % (fa[0], fb[0] if fb else "-", "same" if same else "other"))
            if same:
                self._probe("switch_between_ops_on_same_handle")
        if self.in_ckd[cid] and self.in_ckd[to] and self.in_ckd[cid][-1] == self.in_ckd[to][-1]:
            self._probe("two_clients_inside_ckd_of_same_parent")
        if self.in_ckd[cid]:
            self._probe("preempted_inside_ckd")
        self.switch_sites.append("%d>%d@%s" % (cid, to, site))
        self.current = to
        self.sems[to].release()

    # ---------------------------------------------------------------- yield points
    _PUB_RE = None

    def is_publication(self, fn, lineno):
        """Does this source line store into shared state (attribute / item assignment, append/extend/update ...)?
        Decided from the source text, cached per (file, line)."""
        key = (fn, lineno)
        v = self._pub_cache.get(key)
        if v is None:
            import re
            import linecache
            if Baton._PUB_RE is None:
                Baton._PUB_RE = re.compile(r"(\bself(\.\w+)+\s*(\[[^\]]*\])?\s*[-+|&^]?=[^=])|(\w\s*\[[^\]]*\]\s*[-+|&^]?=[^=])|"
                                           r"(\.(append|extend|insert|pop|remove|update|setdefault|add|clear)\()|(\bglobal\b)")
            line = linecache.getline(fn, lineno)
            v = bool(Baton._PUB_RE.search(line))
            self._pub_cache[key] = v
        return v

    def _pick_visitor(self, cid, others):
        """Prefer a visitor whose operation (in flight, or next to start) is on the SAME object as the victim's -
        that is where an atomicity violation can show - and among those one about to run the same KIND of request."""
        mine = self.op_in_flight[cid]
        same = [c for c in others
                if mine is not None and mine[1] is not None and
                ((self.op_in_flight[c] is not None and self.op_in_flight[c][1] == mine[1]) or self.next_obj[c] == mine[1])]
        twin = [c for c in same if ((self.op_in_flight[c] is not None and self.op_in_flight[c][0] == mine[0]) or
                                    self.next_kind[c] == mine[0])]
        if twin and self.rng.random() < 0.7:
            self._probe("visitor_same_object_same_kind")
            return self.rng.choice(twin)
        if same and self.rng.random() < 0.8:
            self._probe("visitor_same_object")
            return self.rng.choice(same)
        return self.rng.choice(others)

    def yield_point(self, cid, site, is_op=False, weight=1.0, src=None, acc=None):
        if self.cap_hit:
            return
        self.E += 1
        self.local_e[cid] += 1
        if self.E >= self.step_cap:
            self.cap_hit = True
            return
        to = None
        if self.mode == "literal":
            to = self.literal.get((self.cur_op[cid], self.local_e[cid]))
            if to is not None and (to == cid or to >= self.n or self.done[to]):
                to = None
        else:
            pol = self.policy
            fire = False
            if pol == "bernoulli":
                pr = self.p_op if is_op else self.p * weight
                fire = self.rng.random() < pr
            elif pol == "conflict":
                # pre-empt often while another client has an operation in flight on the same object
                mine = self.op_in_flight[cid]
                hot = mine is not None and mine[1] is not None and any(
                    (o is not None and o[1] == mine[1]) or self.next_obj[c] == mine[1]
                    for c, o in enumerate(self.op_in_flight) if c != cid and not self.done[c])
                pr = self.p_op if is_op else ((self.p if weight > 1.0 else self.p / 4) if hot else 0.004)
                fire = self.rng.random() < pr
            elif pol == "access":
                # instruction granularity: an atomicity test BEFORE each load/store of a MUTABLE attribute (one that is
                # stored outside constructors or whose container is mutated in place), first k executions per client and site: another client's whole request fits between two accesses that sit
                # on one source line (`a, b = self.x[0], self.x[1]`, `self.n = self.n + 1`)
                if self.return_to is not None and is_op and self.return_to[0] != cid:
                    back = self.return_to[0]
                    self.return_to = None
                    if not self.done[back]:
                        self._switch(cid, back, site)
                        self.sems[cid].acquire()
                        return
                elif self.return_to is None and not is_op and acc is not None and \
                        (self.atom_mod <= 1 or __import__("zlib").crc32(site.encode()) % self.atom_mod == self.atom_res):
                    # (a seeded subset of the access sites: testing EVERY access would always split a pair of reads
                    #  at its first member too, and the interesting case is a gap before the second one only)
                    key = (cid, site)
                    nh = self.site_hits.get(key, 0) + 1
                    self.site_hits[key] = nh
                    if nh <= self.atom_k:
                        others = self._runnable(exclude=cid)
                        if others:
                            to = self._pick_visitor(cid, others)
                            self.return_to = (cid,)
                            self._probe("self_attribute_access_tests")
            elif pol == "publish":
                # atomicity tests placed around stores into shared state: at the line that publishes (before it runs)
                # and at the line after it, for the first k executions of that line by this client; __init__ frames
                # are skipped (the object under construction is not shared yet)
                if self.return_to is not None and is_op and self.return_to[0] != cid:
                    back = self.return_to[0]
                    self.return_to = None
                    if not self.done[back]:
                        self._switch(cid, back, site)
                        self.sems[cid].acquire()
                        return
                elif self.return_to is None and not is_op and src is not None and src[2] != "__init__":
                    pub = self.is_publication(src[0], src[1])
                    hit = pub or self.after_pub[cid]
                    self.after_pub[cid] = pub
                    if hit:
                        key = (cid, site)
                        nh = self.site_hits.get(key, 0) + 1
                        self.site_hits[key] = nh
                        if nh <= self.atom_k:
                            others = self._runnable(exclude=cid)
                            if others:
                                to = self._pick_visitor(cid, others)
                                self.return_to = (cid,)
                                self._probe("publication_site_tests")
            elif pol == "atomic":
                if self.return_to is not None and is_op and self.return_to[0] != cid:
                    # the visiting client completed an operation: hand the baton back
                    back = self.return_to[0]
                    self.return_to = None
                    if not self.done[back]:
                        self._switch(cid, back, site)
                        self.sems[cid].acquire()
                        return
                elif self.return_to is None and not is_op:
                    import zlib
                    if zlib.crc32(site.encode()) % self.atom_mod == self.atom_res:
                        key = (cid, site)
                        n = self.site_hits.get(key, 0) + 1
                        self.site_hits[key] = n
                        if n == self.atom_k:
                            others = self._runnable(exclude=cid)
                            if others:
                                to = self._pick_visitor(cid, others)
                                self.return_to = (cid,)
                                self._probe("atomicity_tests")
            elif pol == "sparse":
                fire = self.E in self.points
            elif pol == "opgran":
                fire = is_op and self.rng.random() < self.p_op
            if fire:
                others = self._runnable(exclude=cid)
                if others:
                    to = self.rng.choice(others)
        if to is None:
            return
        self._switch(cid, to, site)
        self.sems[cid].acquire()

    def lock_blocked(self, cid, lock):
        """Client cid found a library lock held: give the baton to another runnable client (a forced hand-over,
        logged as ["l", op_id, k, to]); comes back when the baton returns. Nobody else runnable = dead-lock."""
        if self.cap_hit:
            time.sleep(0.0005)
            return
        self.E += 1
        self.local_e[cid] += 1
        others = self._runnable(exclude=cid)
        if not others:
            self.errors.append("dead-lock: client %d waits for a lock and no other client can run" % cid)
            raise RuntimeError("simulated dead-lock")
        to = None
        if self.mode == "literal":
            to = self.literal.get(("l", self.cur_op[cid], self.local_e[cid]))
            if to is not None and (to == cid or to >= self.n or self.done[to]):
                to = None
        if to is None:
            to = self.rng.choice(others) if self.mode != "literal" else others[0]
        self.log.append(["l", self.cur_op[cid], self.local_e[cid], to, cid, "lock"])
        self._probe("lock_contention_handovers")
        self.switch_sites.append("%d>%d@lock" % (cid, to))
        self.current = to
        self.sems[to].release()
        self.sems[cid].acquire()

    def finish(self, cid):
        self.done[cid] = True
        run = self._runnable()
        if not run:
            self.all_done.set()
            return
        if self.mode == "literal":
            to = self.literal.get(("f", cid))
            if to is None or to not in run:
                to = run[0]
        elif self.return_to is not None and self.return_to[0] in run:
            to = self.return_to[0]
            self.return_to = None
        else:
            if self.return_to is not None and self.return_to[0] == cid:
                self.return_to = None
            to = self.rng.choice(run)
        self.log.append(["f", cid, to])
        self.current = to
        self.sems[to].release()

    # ---------------------------------------------------------------- instrumentation
    # sys.monitoring (PEP 669) with LOCAL events on the library's own code objects only:
    # nothing is instrumented inside ecdsa / hashlib / json, events are installed once
    # before any client thread starts and never changed while threads are parked
    # (sys.settrace + f_trace_opcodes re-instruments code under parked threads and
    # crashes CPython 3.12.1).
    TOOL = 4

    def install(self, code_objects):
        """code_objects: list of (code, filename). Must be called before run_clients."""
        mon = sys.monitoring
        ev = mon.events
        if mon.get_tool(self.TOOL) is not None:
            mon.free_tool_id(self.TOOL)
        mon.use_tool_id(self.TOOL, "verif-baton")
        self.tid2cid = {}
        weights = self.weights
        sched = self

        def on_line(code, lineno):
            cid = sched.tid2cid.get(threading.get_ident())
            if cid is None:
                return None
            sched.line_events += 1
            fn = code.co_filename
            sched.yield_point(cid, "%s:%d" % (os.path.basename(fn), lineno), weight=weights.get(fn, 1.0),
                              src=(fn, lineno, code.co_name))
            return None

        def on_instr(code, offset):
            cid = sched.tid2cid.get(threading.get_ident())
            if cid is None:
                return None
            sched.line_events += 1
            fn = code.co_filename
            sched.yield_point(cid, "%s:%s+%d" % (os.path.basename(fn), code.co_name, offset),
                              weight=weights.get(fn, 1.0), acc=sched.self_access.get((id(code), offset)))
            return None

        def on_start(code, offset):
            cid = sched.tid2cid.get(threading.get_ident())
            if cid is None:
                return None
            me = sys._getframe(1).f_locals.get("self")
            sched.in_ckd[cid].append(id(me))
            try:
                if len(me.children) >= 2:
                    sched._probe("ckd_on_parent_with_2plus_children")
            except Exception:
                pass
            return None

        def on_exit(code, offset, val):
            cid = sched.tid2cid.get(threading.get_ident())
            if cid is None:
                return None
            if sched.in_ckd[cid]:
                sched.in_ckd[cid].pop()
            return None

        mon.register_callback(self.TOOL, ev.LINE, on_line)
        mon.register_callback(self.TOOL, ev.INSTRUCTION, on_instr)
        mon.register_callback(self.TOOL, ev.PY_START, on_start)
        mon.register_callback(self.TOOL, ev.PY_RETURN, on_exit)
        n = 0
        self.self_access = {}
        import dis
        # Which attributes are MUTABLE shared state? Those stored outside __init__ somewhere in the package, or whose
        # container is mutated in place (x.append(..), x[k] = v). Fields only ever assigned in constructors cannot race.
        mutators = {"append", "extend", "insert", "pop", "remove", "update", "setdefault", "add", "clear", "sort",
                    "reverse", "popitem", "discard"}
        mutable = set()
        for code, fn in code_objects:
            if code.co_name == "__init__":
                continue
            ins_list = list(dis.get_instructions(code))
            line_attrs, line_has_store_subscr = [], False
            for i_, ins in enumerate(ins_list):
                if ins.starts_line is not None:
                    if line_has_store_subscr:
                        mutable.update(line_attrs)
                    line_attrs, line_has_store_subscr = [], False
                if ins.opname == "STORE_ATTR":
                    mutable.add(ins.argval)
                elif ins.opname == "LOAD_ATTR":
                    line_attrs.append(ins.argval)
                    nxt = ins_list[i_ + 1] if i_ + 1 < len(ins_list) else None
                    if nxt is not None and nxt.opname == "LOAD_ATTR" and nxt.argval in mutators:
                        mutable.add(ins.argval)
                elif ins.opname in ("STORE_SUBSCR", "DELETE_SUBSCR"):
                    line_has_store_subscr = True
            if line_has_store_subscr:
                mutable.update(line_attrs)
        self.mutable_attrs = sorted(mutable)
        for code, fn in code_objects:
            if fn in self.opcode_files and fn in weights and code.co_name != "__init__":
                for ins in dis.get_instructions(code):
                    if ins.opname in ("LOAD_ATTR", "STORE_ATTR") and ins.argval in mutable:
                        self.self_access[(id(code), ins.offset)] = ins.opname + ":" + str(ins.argval)
        for code, fn in code_objects:
            if fn not in weights:
                continue
            e = ev.INSTRUCTION if fn in self.opcode_files else ev.LINE
            if code.co_name == "ckd":
                e |= ev.PY_START | ev.PY_RETURN   # PY_UNWIND is not a local event; stacks are reset per op
            mon.set_local_events(self.TOOL, code, e)
            n += 1
        self.instrumented = n
        return n

    def uninstall(self):
        mon = sys.monitoring
        if mon.get_tool(self.TOOL) is not None:
            mon.free_tool_id(self.TOOL)

    def client_body(self, cid, fn):
        """Wrap a client's work: wait for the baton, run, hand over."""
        def body():
            self.sems[cid].acquire()
            self.tid2cid[threading.get_ident()] = cid
            try:
                fn()
            except BaseException:  # harness bug: never deadlock the others
                import traceback
                self.errors.append(traceback.format_exc())
            finally:
                self.tid2cid.pop(threading.get_ident(), None)
                self.finish(cid)
        return body

    def run_clients(self, fns, wall=300.0):
        threads = [threading.Thread(target=self.client_body(c, f), name="client-%d" % c, daemon=True)
                   for c, f in enumerate(fns)]
        _ACTIVE[0] = self
        for t in threads:
            t.start()
        self.start()
        ok = self.all_done.wait(wall)
        _ACTIVE[0] = None
        if not ok:
            self.errors.append("scheduler wall cap: clients did not finish (a blocking primitive other than "
                               "threading.Lock/RLock inside the library?)")
        return ok


def library_code_objects(pkg_dir):
    """All code objects defined in the package's modules (functions, methods,
    properties, nested code), as (code, filename) pairs in a deterministic order."""
    import types
    out = []
    seen = set()

    def add_code(code):
        if id(code) in seen:
            return
        seen.add(id(code))
        if not code.co_filename.startswith(pkg_dir):
            return
        out.append((code, code.co_filename))
        for c in code.co_consts:
            if isinstance(c, types.CodeType):
                add_code(c)

    def visit(obj, depth=0):
        if isinstance(obj, (staticmethod, classmethod)):
            obj = obj.__func__
        if isinstance(obj, property):
            for f in (obj.fget, obj.fset, obj.fdel):
                if f is not None:
                    visit(f, depth)
            return
        if isinstance(obj, types.FunctionType):
            add_code(obj.__code__)
        elif isinstance(obj, type) and depth < 3:
            if id(obj) in seen:
                return
            seen.add(id(obj))
            for k in sorted(vars(obj)):
                visit(vars(obj)[k], depth + 1)

    for name in sorted(sys.modules):
        mod = sys.modules[name]
        f = getattr(mod, "__file__", None)
        if not f or not f.startswith(pkg_dir):
            continue
        for k in sorted(vars(mod)):
            v = vars(mod)[k]
            if isinstance(v, type) and getattr(v, "__module__", None) != name:
                continue
            visit(v)
    out.sort(key=lambda cf: (cf[1], cf[0].co_firstlineno, cf[0].co_name))
    return out
