"""Independent codecs for the reference model: Base58Check, Bech32/Bech32m,
RIPEMD-160 (pure Python fallback), HASH160, HMAC-SHA512 built on hashlib.sha512.
Harness code; imports nothing from the repository.
"""
import hashlib

B58 = "123456789ABCDEFGHJKLMNPQRSTUVWXYZabcdefghijkmnopqrstuvwxyz"
_B58IDX = {c: i for i, c in enumerate(B58)}


def sha256(b):
    return hashlib.sha256(b).digest()


def hash256(b):
    return sha256(sha256(b))


def b58encode(b):
    n = int.from_bytes(b, "big")
    out = ""
    while n:
        n, r = divmod(n, 58)
        out = B58[r] + out
    z = 0
    for c in b:
        if c == 0:
            z += 1
        else:
            break
    return "1" * z + out


def b58decode(s):
    n = 0
    for c in s:
        if c not in _B58IDX:
            raise ValueError("bad base58 char")
        n = n * 58 + _B58IDX[c]
    z = 0
    for c in s:
        if c == "1":
            z += 1
        else:
            break
    body = n.to_bytes((n.bit_length() + 7) // 8, "big") if n else b""
    return b"\x00" * z + body


def b58check_encode(payload):
    return b58encode(payload + hash256(payload)[:4])


def b58check_decode(s):
    raw = b58decode(s)
    if len(raw) < 4:
        raise ValueError("too short")
    payload, chk = raw[:-4], raw[-4:]
    if hash256(payload)[:4] != chk:
        raise ValueError("bad checksum")
    return payload


# ---------------------------------------------------------------- RIPEMD-160
def _rol(x, n):
    return ((x << n) | (x >> (32 - n))) & 0xFFFFFFFF


_R1 = [0, 1, 2, 3, 4, 5, 6, 7, 8, 9, 10, 11, 12, 13, 14, 15,
       7, 4, 13, 1, 10, 6, 15, 3, 12, 0, 9, 5, 2, 14, 11, 8,
       3, 10, 14, 4, 9, 15, 8, 1, 2, 7, 0, 6, 13, 11, 5, 12,
       1, 9, 11, 10, 0, 8, 12, 4, 13, 3, 7, 15, 14, 5, 6, 2,
       4, 0, 5, 9, 7, 12, 2, 10, 14, 1, 3, 8, 11, 6, 15, 13]
_R2 = [5, 14, 7, 0, 9, 2, 11, 4, 13, 6, 15, 8, 1, 10, 3, 12,
       6, 11, 3, 7, 0, 13, 5, 10, 14, 15, 8, 12, 4, 9, 1, 2,
       15, 5, 1, 3, 7, 14, 6, 9, 11, 8, 12, 2, 10, 0, 4, 13,
       8, 6, 4, 1, 3, 11, 15, 0, 5, 12, 2, 13, 9, 7, 10, 14,
       12, 15, 10, 4, 1, 5, 8, 7, 6, 2, 13, 14, 0, 3, 9, 11]
_S1 = [11, 14, 15, 12, 5, 8, 7, 9, 11, 13, 14, 15, 6, 7, 9, 8,
       7, 6, 8, 13, 11, 9, 7, 15, 7, 12, 15, 9, 11, 7, 13, 12,
       11, 13, 6, 7, 14, 9, 13, 15, 14, 8, 13, 6, 5, 12, 7, 5,
       11, 12, 14, 15, 14, 15, 9, 8, 9, 14, 5, 6, 8, 6, 5, 12,
       9, 15, 5, 11, 6, 8, 13, 12, 5, 12, 13, 14, 11, 8, 5, 6]
_S2 = [8, 9, 9, 11, 13, 15, 15, 5, 7, 7, 8, 11, 14, 14, 12, 6,
       9, 13, 15, 7, 12, 8, 9, 11, 7, 7, 12, 7, 6, 15, 13, 11,
       9, 7, 15, 11, 8, 6, 6, 14, 12, 13, 5, 14, 13, 13, 7, 5,
       15, 5, 8, 11, 14, 14, 6, 14, 6, 9, 12, 9, 12, 5, 15, 8,
       8, 5, 12, 9, 12, 5, 14, 6, 8, 13, 6, 5, 15, 13, 11, 11]
_K1 = [0x00000000, 0x5A827999, 0x6ED9EBA1, 0x8F1BBCDC, 0xA953FD4E]
_K2 = [0x50A28BE6, 0x5C4DD124, 0x6D703EF3, 0x7A6D76E9, 0x00000000]


def _f(j, x, y, z):
    if j < 16:
        return x ^ y ^ z
    if j < 32:
        return (x & y) | (~x & 0xFFFFFFFF & z)
    if j < 48:
        return (x | (~y & 0xFFFFFFFF)) ^ z
    if j < 64:
        return (x & z) | (y & (~z & 0xFFFFFFFF))
    return x ^ (y | (~z & 0xFFFFFFFF))


def ripemd160_py(msg):
    h = [0x67452301, 0xEFCDAB89, 0x98BADCFE, 0x10325476, 0xC3D2E1F0]
    ml = len(msg)
    msg = msg + b"\x80" + b"\x00" * ((55 - ml) % 64) + (8 * ml).to_bytes(8, "little")
    for off in range(0, len(msg), 64):
        x = [int.from_bytes(msg[off + 4 * i: off + 4 * i + 4], "little") for i in range(16)]
        a1, b1, c1, d1, e1 = h
        a2, b2, c2, d2, e2 = h
        for j in range(80):
            t = (_rol((a1 + _f(j, b1, c1, d1) + x[_R1[j]] + _K1[j // 16]) & 0xFFFFFFFF, _S1[j]) + e1) & 0xFFFFFFFF
            a1, e1, d1, c1, b1 = e1, d1, _rol(c1, 10), b1, t
            t = (_rol((a2 + _f(79 - j, b2, c2, d2) + x[_R2[j]] + _K2[j // 16]) & 0xFFFFFFFF, _S2[j]) + e2) & 0xFFFFFFFF
            a2, e2, d2, c2, b2 = e2, d2, _rol(c2, 10), b2, t
        t = (h[1] + c1 + d2) & 0xFFFFFFFF
        h[1] = (h[2] + d1 + e2) & 0xFFFFFFFF
        h[2] = (h[3] + e1 + a2) & 0xFFFFFFFF
        h[3] = (h[4] + a1 + b2) & 0xFFFFFFFF
        h[4] = (h[0] + b1 + c2) & 0xFFFFFFFF
        h[0] = t
    return b"".join(v.to_bytes(4, "little") for v in h)


def ripemd160(b):
    try:
        return hashlib.new("ripemd160", b).digest()
    except (ValueError, TypeError):
        return ripemd160_py(b)


def hash160(b):
    return ripemd160(sha256(b))


# ---------------------------------------------------------------- HMAC-SHA512
def hmac_sha512(key, msg):
    """RFC 2104 over hashlib.sha512 (does not use the stdlib hmac module, which
    the simulator patches)."""
    bs = 128
    if len(key) > bs:
        key = hashlib.sha512(key).digest()
    key = key + b"\x00" * (bs - len(key))
    ipad = bytes(b ^ 0x36 for b in key)
    opad = bytes(b ^ 0x5C for b in key)
    return hashlib.sha512(opad + hashlib.sha512(ipad + msg).digest()).digest()


# ---------------------------------------------------------------- Bech32 / Bech32m
_CH = "qpzry9x8gf2tvdw0s3jn54khce6mua7l"
_BECH32 = 1
_BECH32M = 0x2BC830A3


def _polymod(values):
    gen = [0x3B6A57B2, 0x26508E6D, 0x1EA119FA, 0x3D4233DD, 0x2A1462B3]
    chk = 1
    for v in values:
        b = chk >> 25
        chk = ((chk & 0x1FFFFFF) << 5) ^ v
        for i in range(5):
            if (b >> i) & 1:
                chk ^= gen[i]
    return chk


def _hrp_expand(hrp):
    return [ord(c) >> 5 for c in hrp] + [0] + [ord(c) & 31 for c in hrp]


def _convertbits(data, frm, to, pad):
    acc = 0
    bits = 0
    out = []
    maxv = (1 << to) - 1
    for v in data:
        if v < 0 or v >> frm:
            return None
        acc = (acc << frm) | v
        bits += frm
        while bits >= to:
            bits -= to
            out.append((acc >> bits) & maxv)
    if pad:
        if bits:
            out.append((acc << (to - bits)) & maxv)
    elif bits >= frm or ((acc << (to - bits)) & maxv):
        return None
    return out


def segwit_encode(hrp, witver, prog):
    data = [witver] + _convertbits(prog, 8, 5, True)
    const = _BECH32 if witver == 0 else _BECH32M
    pm = _polymod(_hrp_expand(hrp) + data + [0] * 6) ^ const
    chk = [(pm >> 5 * (5 - i)) & 31 for i in range(6)]
    return hrp + "1" + "".join(_CH[d] for d in data + chk)


def segwit_decode(addr):
    """-> (hrp, witver, program bytes) or raises ValueError."""
    if addr.lower() != addr and addr.upper() != addr:
        raise ValueError("mixed case")
    addr = addr.lower()
    pos = addr.rfind("1")
    if pos < 1 or pos + 7 > len(addr) or len(addr) > 90:
        raise ValueError("bad separator/length")
    hrp = addr[:pos]
    if any(ord(c) < 33 or ord(c) > 126 for c in hrp):
        raise ValueError("bad hrp")
    try:
        data = [_CH.index(c) for c in addr[pos + 1:]]
    except ValueError:
        raise ValueError("bad char")
    pm = _polymod(_hrp_expand(hrp) + data)
    witver = data[0]
    if witver > 16:
        raise ValueError("bad witver")
    if pm != (_BECH32 if witver == 0 else _BECH32M):
        raise ValueError("bad checksum")
    prog = _convertbits(data[1:-6], 5, 8, False)
    if prog is None or len(prog) < 2 or len(prog) > 40:
        raise ValueError("bad program")
    if witver == 0 and len(prog) not in (20, 32):
        raise ValueError("bad v0 program length")
    return hrp, witver, bytes(prog)
