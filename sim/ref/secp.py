"""Independent secp256k1 arithmetic for the reference model (harness code).

Written without looking at / importing anything from the repository or from
the `ecdsa` package.  Jacobian coordinates, own field arithmetic.
"""

P = 2 ** 256 - 2 ** 32 - 977
N = 0xFFFFFFFFFFFFFFFFFFFFFFFFFFFFFFFEBAAEDCE6AF48A03BBFD25E8CD0364141
GX = 0x79BE667EF9DCBBAC55A06295CE870B07029BFCDB2DCE28D959F2815B16F81798
GY = 0x483ADA7726A3C4655DA4FBFC0E1108A8FD17B448A68554199C47D08FFB10D4B8

INF = None  # affine point at infinity


def _inv(a, m=P):
    return pow(a, -1, m)


def _jdouble(pt):
    x, y, z = pt
    if y == 0 or z == 0:
        return (0, 1, 0)
    ysq = (y * y) % P
    s = (4 * x * ysq) % P
    m = (3 * x * x) % P  # a = 0
    nx = (m * m - 2 * s) % P
    ny = (m * (s - nx) - 8 * ysq * ysq) % P
    nz = (2 * y * z) % P
    return (nx, ny, nz)


def _jadd(p, q):
    if p[2] == 0:
        return q
    if q[2] == 0:
        return p
    x1, y1, z1 = p
    x2, y2, z2 = q
    z1s = (z1 * z1) % P
    z2s = (z2 * z2) % P
    u1 = (x1 * z2s) % P
    u2 = (x2 * z1s) % P
    s1 = (y1 * z2s * z2) % P
    s2 = (y2 * z1s * z1) % P
    if u1 == u2:
        if s1 != s2:
            return (0, 1, 0)
        return _jdouble(p)
    h = (u2 - u1) % P
    r = (s2 - s1) % P
    h2 = (h * h) % P
    h3 = (h * h2) % P
    u1h2 = (u1 * h2) % P
    nx = (r * r - h3 - 2 * u1h2) % P
    ny = (r * (u1h2 - nx) - s1 * h3) % P
    nz = (h * z1 * z2) % P
    return (nx, ny, nz)


def _to_affine(p):
    if p[2] == 0:
        return INF
    zi = _inv(p[2])
    zi2 = (zi * zi) % P
    return ((p[0] * zi2) % P, (p[1] * zi2 * zi) % P)


def _to_jac(a):
    if a is INF:
        return (0, 1, 0)
    return (a[0], a[1], 1)


# small fixed-window table for G to make scalar-base multiplication fast
_GTABLE = None


def _gtable():
    global _GTABLE
    if _GTABLE is None:
        tbl = []
        base = (GX, GY, 1)
        for _ in range(64):  # 64 windows of 4 bits
            row = [(0, 1, 0)]
            acc = (0, 1, 0)
            for _j in range(15):
                acc = _jadd(acc, base)
                row.append(acc)
            tbl.append(row)
            for _j in range(4):
                base = _jdouble(base)
        _GTABLE = tbl
    return _GTABLE


def mul_g(k):
    """k*G as affine point (INF if k % N == 0)."""
    k %= N
    tbl = _gtable()
    acc = (0, 1, 0)
    i = 0
    while k:
        d = k & 15
        if d:
            acc = _jadd(acc, tbl[i][d])
        k >>= 4
        i += 1
    return _to_affine(acc)


def mul(k, pt):
    """k*pt for affine pt."""
    k %= N
    acc = (0, 1, 0)
    add = _to_jac(pt)
    while k:
        if k & 1:
            acc = _jadd(acc, add)
        add = _jdouble(add)
        k >>= 1
    return _to_affine(acc)


def add(a, b):
    return _to_affine(_jadd(_to_jac(a), _to_jac(b)))


def neg(a):
    if a is INF:
        return INF
    return (a[0], (-a[1]) % P)


def on_curve(a):
    if a is INF:
        return True
    x, y = a
    return (y * y - x * x * x - 7) % P == 0


def ser_p(a):
    """Compressed SEC."""
    if a is INF:
        raise ValueError("infinity has no SEC encoding")
    return bytes([2 + (a[1] & 1)]) + a[0].to_bytes(32, "big")


def parse_p(b):
    if len(b) != 33 or b[0] not in (2, 3):
        raise ValueError("bad compressed point")
    x = int.from_bytes(b[1:], "big")
    if x >= P:
        raise ValueError("x out of range")
    y2 = (pow(x, 3, P) + 7) % P
    y = pow(y2, (P + 1) // 4, P)
    if (y * y) % P != y2:
        raise ValueError("not on curve")
    if (y & 1) != (b[0] & 1):
        y = P - y
    return (x, y)
