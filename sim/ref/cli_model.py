"""Harness-side helpers for the CLI simulator: BIP39 encoding over a word list
used purely as a bijection, wallet-data / secret detectors, the reference
paranoia filter, BIP44 row-shape check.  Imports nothing from the repository
(the word list is passed in by the caller).
"""
import re
import json
import hashlib

from . import codecs, secp
from . import bip32 as rb

HARD = 2 ** 31


def mnemonic_from_entropy(ent, words):
    bits = len(ent) * 8
    cs = bits // 32
    v = (int.from_bytes(ent, "big") << cs) | (hashlib.sha256(ent).digest()[0] >> (8 - cs))
    n = (bits + cs) // 11
    return " ".join(words[(v >> (11 * (n - 1 - i))) & 2047] for i in range(n))


def entropy_from_mnemonic(mn, words_index):
    ws = mn.split(" ")
    v = 0
    for w in ws:
        v = (v << 11) | words_index[w]
    total = len(ws) * 11
    cs = total // 33
    return (v >> cs).to_bytes((total - cs) // 8, "big")


# ------------------------------------------------------------------------- detectors
_TOKEN = re.compile(r"[A-Za-z0-9]{20,}")
_HEX66 = re.compile(r"(?<![0-9a-fA-F])0[23][0-9a-fA-F]{64}(?![0-9a-fA-F])")
_HEX64 = re.compile(r"(?<![0-9a-fA-F])[0-9a-fA-F]{64}(?![0-9a-fA-F])")
_WORD = re.compile(r"[a-z]+")

PRV_VERSIONS = {v[0] for v in rb.VERSIONS.values() if v[1]}
PUB_VERSIONS = {v[0] for v in rb.VERSIONS.values() if not v[1]}


def classify_token(tok):
    """-> None | 'address' | 'wif' | 'xprv' | 'xpub' for a Base58Check / Bech32 token."""
    low = tok.lower()
    if low.startswith(("bc1", "tb1")):
        try:
            codecs.segwit_decode(tok)
            return "address"
        except ValueError:
            pass
    try:
        pl = codecs.b58check_decode(tok)
    except ValueError:
        return None
    if len(pl) == 21 and pl[0] in (0x00, 0x05, 0x6F, 0xC4):
        return "address"
    if len(pl) in (33, 34) and pl[0] in (0x80, 0xEF):
        return "wif"
    if len(pl) == 78:
        ver = int.from_bytes(pl[:4], "big")
        if ver in PRV_VERSIONS or pl[45] == 0:
            return "xprv"
        return "xpub"
    return None


def word_runs(text, words_set, min_run=12):
    run = 0
    best = 0
    for m in re.finditer(r"[A-Za-z]+|[^A-Za-z\s]", text):
        t = m.group(0)
        if t in words_set:
            run += 1
            best = max(best, run)
        else:
            run = 0
    return best >= min_run


def wallet_data_kinds(text, words_set):
    """Which kinds of wallet data a text carries (empty set = none: usage/help/errors pass)."""
    kinds = set()
    for tok in _TOKEN.findall(text):
        k = classify_token(tok)
        if k:
            kinds.add(k)
    for h in _HEX66.findall(text):
        try:
            secp.parse_p(bytes.fromhex(h))
            kinds.add("pubkey")
        except ValueError:
            pass
    if word_runs(text, words_set):
        kinds.add("mnemonic")
    try:
        doc = json.loads(text)
        if isinstance(doc, dict) and any(k in doc for k in ("BIP44", "BIP49", "BIP84", "MASTER", "BIP85")):
            kinds.add("wallet-json")
    except ValueError:
        pass
    return kinds


def all_strings(doc, path=""):
    """Every string at every nesting depth of a JSON document (keys included)."""
    if isinstance(doc, str):
        yield path, doc
    elif isinstance(doc, dict):
        for k, v in doc.items():
            yield path + "/<key>", str(k)
            yield from all_strings(v, path + "/" + str(k))
    elif isinstance(doc, (list, tuple)):
        for i, v in enumerate(doc):
            yield from all_strings(v, path + "/%d" % i)


def ref_paranoia_filter(full):
    """Reference filter (white list by construction): paths, addresses, SEC keys, account path/pub."""
    out = {}
    for k in ("BIP44", "BIP49", "BIP84"):
        if k in full:
            v = full[k]
            out[k] = {
                "account_extended_keys": {"path": v["account_extended_keys"]["path"],
                                          "pub": v["account_extended_keys"]["pub"]},
                "groups": [[g[0], g[1], g[2]] for g in v["groups"]],
            }
    return out


def secrets_of(full, words_index=None):
    """Secret strings and private scalars of an UNFILTERED wallet dict, plus re-encodings from which a
    secret is recovered at once (seed / entropy hex, scalars as decimal or base64)."""
    import base64
    import unicodedata
    strings = {}
    scalars = set()
    ms = full.get("MASTER", {})
    if ms.get("mnemonic"):
        strings["mnemonic"] = ms["mnemonic"]
    if ms.get("password"):
        strings["password"] = ms["password"]
    for k, v in (full.get("BIP85") or {}).items():
        if v:
            strings["bip85:" + k] = v
    for b in ("BIP44", "BIP49", "BIP84"):
        if b not in full:
            continue
        prv = full[b]["account_extended_keys"].get("prv")
        if prv:
            strings["%s:account-prv" % b] = prv
        for i, g in enumerate(full[b]["groups"]):
            if len(g) > 3 and g[3]:
                strings["%s:wif:%d" % (b, i)] = g[3]
    for name, s in list(strings.items()):
        for tok in _TOKEN.findall(s):
            try:
                pl = codecs.b58check_decode(tok)
            except ValueError:
                continue
            if len(pl) in (33, 34) and pl[0] in (0x80, 0xEF):
                scalars.add(pl[1:33].hex())
            elif len(pl) == 78 and pl[45] == 0:
                scalars.add(pl[46:78].hex())
    mn = ms.get("mnemonic")
    if mn:
        try:
            m_ = unicodedata.normalize("NFKD", mn).encode()
            s_ = ("mnemonic" + unicodedata.normalize("NFKD", ms.get("password") or "")).encode()
            strings["derived:bip39-seed-hex"] = hashlib.pbkdf2_hmac("sha512", m_, s_, 2048).hex()
        except Exception:
            pass
        if words_index is not None:
            try:
                strings["derived:entropy-hex"] = entropy_from_mnemonic(mn, words_index).hex()
            except Exception:
                pass
    for i, h in enumerate(sorted(scalars)):
        strings["derived:scalar-decimal:%d" % i] = str(int(h, 16))
        strings["derived:scalar-base64:%d" % i] = base64.b64encode(bytes.fromhex(h)).decode()
    return strings, scalars


def scan_for_secrets(text, strings, scalars, words_set):
    """-> list of (kind, what). text is one output channel (raw)."""
    hits = []
    forms = [("raw", text)]
    try:
        doc = json.loads(text)
        forms += [("json" + p, s) for p, s in all_strings(doc)]
    except ValueError:
        pass
    for name, s in sorted(strings.items()):
        esc = json.dumps(s)[1:-1]
        low = name.startswith("derived:") and "hex" in name
        for where, t in forms:
            if s in t or esc in t or (low and s in t.lower()):
                hits.append(("secret-string", "%s in %s" % (name.split(":")[0], where.split("/")[0])))
                break
    for where, t in forms[:1] + [f for f in forms[1:]]:
        for tok in _TOKEN.findall(t):
            k = classify_token(tok)
            if k in ("wif", "xprv"):
                hits.append(("private-encoding", "%s token decodes as %s" % (where.split("/")[0], k)))
        for h in _HEX64.findall(t):
            if h.lower() in scalars:
                hits.append(("private-scalar-hex", where.split("/")[0]))
        if word_runs(t, words_set):
            hits.append(("mnemonic-like-word-run", where.split("/")[0]))
        if where == "raw":
            continue
    return sorted(set(hits))


_ROW = re.compile(r"^m/(\d+)'/(\d+)'/(\d+)'/(\d+)/(\d+)('?)$")


def row_shape_defects(doc, testnet, account, start):
    """BIP44-shaped rows: m/P'/C'/A'/0/i with P in {44,49,84} matching its block, C = 0|1, A = account,
    chain 0, i non-hardened and equal to start + row number.  Returns list of defect names."""
    defects = set()
    for blk, purpose in (("BIP44", 44), ("BIP49", 49), ("BIP84", 84)):
        if blk not in doc:
            continue
        for n, g in enumerate(doc[blk].get("groups", [])):
            path = g[0] if g else ""
            m = _ROW.match(path if isinstance(path, str) else "")
            if not m:
                # which level is off?
                parts = str(path).split("/")
                if len(parts) == 6 and parts[0] == "m":
                    for lvl, name in ((1, "purpose"), (2, "coin"), (3, "account")):
                        if not parts[lvl].endswith("'"):
                            defects.add("%s-not-hardened" % name)
                    if parts[4].endswith("'"):
                        defects.add("chain-hardened")
                defects.add("row-path-malformed")
                continue
            p, c, a, ch, i, ih = int(m.group(1)), int(m.group(2)), int(m.group(3)), int(m.group(4)), int(m.group(5)), m.group(6)
            if ih:
                defects.add("address-index-hardened")
            if p != purpose:
                defects.add("wrong-purpose")
            if testnet is not None and c != (1 if testnet else 0):
                defects.add("wrong-coin")
            if account is not None and a != account:
                defects.add("wrong-account")
            if ch != 0:
                defects.add("wrong-chain")
            if not ih and start is not None and i != start + n:
                defects.add("wrong-address-index")
        acct = (doc[blk].get("account_extended_keys") or {}).get("path", "")
        if account is not None and not re.match(r"^m/%d'/\d+'/%d'$" % (purpose, account), str(acct)):
            defects.add("account-path-shape")
    if "row-path-malformed" in defects and "address-index-hardened" not in defects:
        pass
    return sorted(defects)


def public_data_defects(ref, doc):
    """ref: reference (white-list) filter of the unfiltered wallet; doc: what the command emitted.
    Every path, address, public key and extended public key of ref must be present, in place and identical.
    Extra fields / columns are allowed here (they are scanned for secrets separately): the property forbids
    secrets and altered public data, not additional harmless data."""
    out = []
    if not isinstance(doc, dict):
        return ["output is not a JSON object"]
    for blk, v in ref.items():
        d = doc.get(blk)
        if not isinstance(d, dict):
            out.append("%s missing" % blk)
            continue
        a = d.get("account_extended_keys")
        if not isinstance(a, dict) or a.get("path") != v["account_extended_keys"]["path"] or \
                a.get("pub") != v["account_extended_keys"]["pub"]:
            out.append("%s account path/pub differ" % blk)
        g = d.get("groups")
        if not isinstance(g, list) or len(g) != len(v["groups"]):
            out.append("%s row count differs" % blk)
            continue
        for i, (row, want) in enumerate(zip(g, v["groups"])):
            if not isinstance(row, list) or list(row[:3]) != list(want[:3]):
                out.append("%s row %d public columns differ" % (blk, i))
                break
    return out
