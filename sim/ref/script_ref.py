"""Strict reference parser/serialiser for the script and varint wire formats
(harness code; same push grammar as the library: 1-75 bare push, 0x4c PUSHDATA1,
0x4d PUSHDATA2, everything else -- including 0x4e -- a plain opcode).  Refuses
any read that runs past the end of the wire ("short") or past the declared
script length ("bad")."""


def ref_encode_varint(v):
    if v < 0:
        raise ValueError
    if v < 0xfd:
        return bytes([v])
    if v < 0x10000:
        return b"\xfd" + v.to_bytes(2, "little")
    if v < 0x100000000:
        return b"\xfe" + v.to_bytes(4, "little")
    if v < 0x10000000000000000:
        return b"\xff" + v.to_bytes(8, "little")
    raise ValueError("too large")


def ref_read_varint(buf, pos):
    """-> ("ok", value, newpos) | ("short", why)"""
    if pos >= len(buf):
        return ("short", "no varint byte")
    b = buf[pos]
    n = {0xfd: 2, 0xfe: 4, 0xff: 8}.get(b, 0)
    if n == 0:
        return ("ok", b, pos + 1)
    if pos + 1 + n > len(buf):
        return ("short", "varint body ends early")
    return ("ok", int.from_bytes(buf[pos + 1:pos + 1 + n], "little"), pos + 1 + n)


def ref_push_prefix(n):
    if 1 <= n <= 75:
        return bytes([n])
    if 76 <= n <= 255:
        return b"\x4c" + bytes([n])
    if 256 <= n <= 520:
        return b"\x4d" + n.to_bytes(2, "little")
    raise ValueError("element length %d outside 1..520" % n)


def ref_raw_serialize(cmds):
    out = b""
    for c in cmds:
        if isinstance(c, int):
            out += bytes([c])
        else:
            out += ref_push_prefix(len(c)) + c
    return out


def ref_serialize(cmds):
    raw = ref_raw_serialize(cmds)
    return ref_encode_varint(len(raw)) + raw


def ref_parse(buf, pos):
    """-> ("ok", cmds, newpos) | ("short", why, where) | ("bad", why, where)"""
    r = ref_read_varint(buf, pos)
    if r[0] != "ok":
        return ("short", r[1], "varint")
    length, p = r[1], r[2]
    end = p + length
    cmds = []
    while p < end:
        if p >= len(buf):
            return ("short", "wire ends inside the declared script", "opcode")
        b = buf[p]
        p += 1
        if 1 <= b <= 75:
            n, hdr = b, 0
        elif b == 76:
            hdr = 1
        elif b == 77:
            hdr = 2
        else:
            cmds.append(b)
            continue
        if b in (76, 77):
            if p + hdr > len(buf):
                return ("short", "wire ends inside a push length", "push-length")
            if p + hdr > end:
                return ("bad", "push length field crosses the declared script length", "push-length")
            n = int.from_bytes(buf[p:p + hdr], "little")
            p += hdr
        if p + n > len(buf):
            return ("short", "wire ends inside push data", "push-data")
        if p + n > end:
            return ("bad", "push data crosses the declared script length", "push-data")
        cmds.append(bytes(buf[p:p + n]))
        p += n
    return ("ok", cmds, p)
