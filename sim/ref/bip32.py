"""Executable reference model of BIP32 (harness code, independent of the repo).

The PRF is a parameter so that the model can be fed exactly the outputs the
simulator planted at the HMAC seam.
"""
from . import secp
from .codecs import hmac_sha512, hash160, b58check_encode, b58check_decode

HARD = 2 ** 31
XPRV, XPUB = 0x0488ADE4, 0x0488B21E
TPRV, TPUB = 0x04358394, 0x043587CF

VERSIONS = {
    # name: (version, private?, testnet?, bip)
    "xprv": (0x0488ADE4, True, False, 44), "xpub": (0x0488B21E, False, False, 44),
    "yprv": (0x049D7878, True, False, 49), "ypub": (0x049D7CB2, False, False, 49),
    "zprv": (0x04B2430C, True, False, 84), "zpub": (0x04B24746, False, False, 84),
    "tprv": (0x04358394, True, True, 44), "tpub": (0x043587CF, False, True, 44),
    "uprv": (0x044A4E28, True, True, 49), "upub": (0x044A5262, False, True, 49),
    "vprv": (0x045F18BC, True, True, 84), "vpub": (0x045F1CF6, False, True, 84),
}
VERSION_BY_INT = {v[0]: (k,) + v[1:] for k, v in VERSIONS.items()}


class Invalid(Exception):
    """BIP32 declares the derived key invalid."""


class RefNode:
    __slots__ = ("k", "K", "c", "depth", "index", "pfp", "testnet")

    def __init__(self, k, K, c, depth=0, index=0, pfp=b"\x00" * 4, testnet=False):
        self.k = k          # int or None (public only)
        self.K = K          # affine point
        self.c = c
        self.depth = depth
        self.index = index
        self.pfp = pfp
        self.testnet = testnet

    @property
    def sec(self):
        return secp.ser_p(self.K)

    def fingerprint(self):
        return hash160(self.sec)[:4]

    def neuter(self):
        return RefNode(None, self.K, self.c, self.depth, self.index, self.pfp, self.testnet)

    def _ser(self, version, keydata):
        return (version.to_bytes(4, "big") + bytes([self.depth & 0xFF]) + self.pfp +
                self.index.to_bytes(4, "big") + self.c + keydata)

    def xpub(self, version=None):
        if version is None:
            version = TPUB if self.testnet else XPUB
        return b58check_encode(self._ser(version, self.sec))

    def xprv(self, version=None):
        if self.k is None:
            raise ValueError("public node")
        if version is None:
            version = TPRV if self.testnet else XPRV
        return b58check_encode(self._ser(version, b"\x00" + self.k.to_bytes(32, "big")))

    def fields(self):
        return {
            "key": (self.k.to_bytes(32, "big").hex() if self.k is not None else self.sec.hex()),
            "chain_code": self.c.hex(), "depth": self.depth, "index": self.index,
            "pfp": self.pfp.hex(),
        }


def master(seed, prf=hmac_sha512, testnet=False):
    I = prf(b"Bitcoin seed", seed)
    il = int.from_bytes(I[:32], "big")
    if il == 0 or il >= secp.N:
        raise Invalid("master IL out of range")
    return RefNode(il, secp.mul_g(il), I[32:], testnet=testnet)


def ckd_priv_data(node, i):
    if i >= HARD:
        return b"\x00" + node.k.to_bytes(32, "big") + i.to_bytes(4, "big")
    return node.sec + i.to_bytes(4, "big")


def ckd_priv(node, i, prf=hmac_sha512):
    I = prf(node.c, ckd_priv_data(node, i))
    il = int.from_bytes(I[:32], "big")
    if il >= secp.N:
        raise Invalid("IL >= n")
    k = (il + node.k) % secp.N
    if k == 0:
        raise Invalid("k == 0")
    return RefNode(k, secp.mul_g(k), I[32:], node.depth + 1, i, node.fingerprint(), node.testnet)


def ckd_pub(node, i, prf=hmac_sha512):
    if i >= HARD:
        raise ValueError("hardened from public")
    I = prf(node.c, node.sec + i.to_bytes(4, "big"))
    il = int.from_bytes(I[:32], "big")
    if il >= secp.N:
        raise Invalid("IL >= n")
    K = secp.add(secp.mul_g(il), node.K)
    if K is secp.INF:
        raise Invalid("infinity")
    return RefNode(None, K, I[32:], node.depth + 1, i, node.fingerprint(), node.testnet)


def derive(node, path, prf=hmac_sha512):
    for i in path:
        node = ckd_priv(node, i, prf) if node.k is not None else ckd_pub(node, i, prf)
    return node


def parse_xkey(s):
    raw = b58check_decode(s)
    if len(raw) != 78:
        raise ValueError("bad length")
    version = int.from_bytes(raw[:4], "big")
    name, private, testnet, bip = VERSION_BY_INT[version]
    depth = raw[4]
    pfp = raw[5:9]
    index = int.from_bytes(raw[9:13], "big")
    c = raw[13:45]
    kd = raw[45:]
    if private:
        if kd[0] != 0:
            raise ValueError("bad private key data")
        k = int.from_bytes(kd[1:], "big")
        if not 0 < k < secp.N:
            raise ValueError("scalar out of range")
        return RefNode(k, secp.mul_g(k), c, depth, index, pfp, testnet)
    K = secp.parse_p(kd)
    return RefNode(None, K, c, depth, index, pfp, testnet)


def build_xprv(version, depth, pfp, index, c, k):
    return b58check_encode(version.to_bytes(4, "big") + bytes([depth]) + pfp +
                           index.to_bytes(4, "big") + c + b"\x00" + k.to_bytes(32, "big"))


def wif(k, testnet=False, compressed=True):
    return b58check_encode((b"\xef" if testnet else b"\x80") + k.to_bytes(32, "big") +
                           (b"\x01" if compressed else b""))


def selftest():
    """BIP32 test vector 1 chain + a few algebraic sanity checks."""
    seed = bytes.fromhex("000102030405060708090a0b0c0d0e0f")
    m = master(seed)
    assert m.xpub() == ("xpub661MyMwAqRbcFtXgS5sYJABqqG9YLmC4Q1Rdap9gSE8NqtwybGhePY2gZ29ESFjqJo"
                        "Cu1Rupje8YtGqsefD265TMg7usUDFdp6W1EGMcet8"), m.xpub()
    assert m.xprv() == ("xprv9s21ZrQH143K3QTDL4LXw2F7HEK3wJUD2nW2nRk4stbPy6cq3jPPqjiChkVvvNKmPG"
                        "JxWUtg6LnF5kejMRNNU3TGtRBeJgk33yuGBxrMPHi")
    n = derive(m, [HARD, 1, HARD + 2, 2, 1000000000])
    assert n.xpub() == ("xpub6H1LXWLaKsWFhvm6RVpEL9P4KfRZSW7abD2ttkWP3SSQvnyA8FSVqNTEcYFgJS2UaF"
                        "cxupHiYkro49S8yGasTvXEYBVPamhGW6cFJodrTHy")
    assert n.xprv() == ("xprvA41z7zogVVwxVSgdKUHDy1SKmdb533PjDz7J6N6mV6uS3ze1ai8FHa8kmHScGpWmj4"
                        "WggLyQjgPie1rFSruoUihUZREPSL39UNdE3BBDu76")
    # public derivation agrees with private on a normal step
    a = derive(m, [HARD])
    assert ckd_pub(a.neuter(), 1).sec == ckd_priv(a, 1).sec
    assert secp.mul(secp.N - 1, (secp.GX, secp.GY)) == secp.neg((secp.GX, secp.GY))
    assert secp.add(secp.mul_g(5), secp.neg(secp.mul_g(5))) is secp.INF
    assert parse_xkey(n.xprv()).k == n.k and parse_xkey(n.xpub()).K == n.K
    return True
