"""Simulator core shared by all simulators: seed derivation, fork executor,
worker pool (zygotes), batch driver, minimiser, replay, known findings,
evidence.  Harness code only; the library under test is imported from the
repository working tree (VERIF_REPO, default /repo).

Exit status of a check: 0 property held / 1 VIOLATION printed / 2 harness error.
"""
import os
import sys
import json
import time
import errno
import signal
import hashlib
import selectors
import traceback
import faulthandler

VERIF = os.path.dirname(os.path.dirname(os.path.abspath(__file__)))
REPO = os.environ.get("VERIF_REPO", "/repo")
NPROC = int(os.environ.get("VERIF_WORKERS", "0")) or min(16, os.cpu_count() or 4)
OUT = os.environ.get("VERIF_OUT", VERIF)      # where evidence/ and replays/ are written (self-tests redirect it)
BACKEND = os.environ.get("VERIF_BACKEND", "ecdsa")   # "ecdsa" (what this sandbox has) | "stub" (fake pysecp256k1)
#                                                      | "ecdsa-O" / "stub-O": the same under `python -O` (asserts stripped)
BACKEND_BASE = BACKEND.split("-")[0]
OPTIMIZED = BACKEND.endswith("-O")


class HarnessError(Exception):
    pass


# --------------------------------------------------------------------------- env
def ensure_env():
    """Pin PYTHONHASHSEED (re-exec once) and put the repo first on sys.path."""
    want = os.environ.get("VERIF_HASHSEED", "0")
    reexec = False
    if os.environ.get("PYTHONHASHSEED") != want:
        os.environ["PYTHONHASHSEED"] = want
        reexec = True
    # interpreter configuration: "-O" back ends run the library (and the harness, which relies on no assert)
    # with assert statements stripped; everything else must run with them
    if OPTIMIZED and sys.flags.optimize == 0:
        os.environ["PYTHONOPTIMIZE"] = "1"
        reexec = True
    if not OPTIMIZED and sys.flags.optimize != 0:
        os.environ.pop("PYTHONOPTIMIZE", None)
        os.execv(sys.executable, [sys.executable] + sys.argv)     # (only reachable when started with the env set)
    if reexec:
        os.execv(sys.executable, [sys.executable] + sys.argv)
    if REPO not in sys.path:
        sys.path.insert(0, REPO)
    sys.dont_write_bytecode = True
    from . import sched as _sched
    _sched.install_lock_seam()        # threading.Lock/RLock created by the library become scheduler-aware
    if BACKEND_BASE == "stub":
        from . import fake_secp
        fake_secp.install()           # must happen before the library is imported: it picks its back end at import
    import btc_hd_wallet  # noqa
    if BACKEND_BASE == "stub":
        # the library must really have taken the pysecp256k1 path: a probe key construction has to reach the stub
        # (checked by behaviour, not by looking at module attributes, so a refactor of the dispatch cannot break it)
        import btc_hd_wallet.keys as _keys
        before = fake_secp.CALLS[0]
        _keys.PrivateKey(b"\x01" * 32).K.sec()
        if fake_secp.CALLS[0] == before:
            raise HarnessError("VERIF_BACKEND=stub but the library did not call into the pysecp256k1 stub")
    got = os.path.realpath(os.path.dirname(os.path.dirname(btc_hd_wallet.__file__)))
    if got != os.path.realpath(REPO):
        raise HarnessError("btc_hd_wallet imported from %s, expected %s" % (got, REPO))


def derive_seed(prop, verif_seed, idx):
    h = hashlib.sha256(("btc-hd-wallet-verif|%s|%d|%d" % (prop, verif_seed, idx)).encode()).digest()
    return int.from_bytes(h[:8], "big")


def canon_json(obj):
    return json.dumps(obj, sort_keys=True, separators=(",", ":"), default=_json_default)


def _json_default(o):
    if isinstance(o, (bytes, bytearray)):
        return {"__bytes__": bytes(o).hex()}
    if isinstance(o, (set, frozenset)):
        return sorted(o)
    if isinstance(o, tuple):
        return list(o)
    raise TypeError("not JSON serialisable: %r" % type(o))


def digest(obj):
    return hashlib.sha256(canon_json(obj).encode()).hexdigest()[:24]


# --------------------------------------------------------------------------- fork executor
def fork_call(fn, args=(), timeout=60.0):
    """Run fn(*args) in a forked child; return (status, payload).

    status: "ok" (payload = JSON-decoded return value), "exc" (payload = traceback
    text), "timeout", "died" (payload = wait status).
    """
    r, w = os.pipe()
    sys.stdout.flush()
    sys.stderr.flush()
    pid = os.fork()
    if pid == 0:
        code = 0
        try:
            os.close(r)
            try:
                # no watchdog THREAD here (a forked grandchild would inherit its locked
                # state and dead-lock); the parent sends SIGUSR1 for a traceback, then SIGKILL
                faulthandler.enable()
                faulthandler.register(signal.SIGUSR1, all_threads=True, chain=False)
            except Exception:
                pass
            try:
                res = fn(*args)
                data = canon_json({"ok": res}).encode()
            except BaseException:
                data = json.dumps({"exc": traceback.format_exc()}).encode()
            off = 0
            while off < len(data):
                off += os.write(w, data[off:off + 65536])
            os.close(w)
        except BaseException:
            code = 3
        finally:
            os._exit(code)
    os.close(w)
    chunks = []
    deadline = time.monotonic() + timeout
    status = None
    sel = selectors.DefaultSelector()
    sel.register(r, selectors.EVENT_READ)
    try:
        while True:
            left = deadline - time.monotonic()
            if left <= 0:
                status = "timeout"
                break
            if not sel.select(left):
                continue
            try:
                b = os.read(r, 1 << 16)
            except OSError as e:
                if e.errno == errno.EINTR:
                    continue
                raise
            if not b:
                break
            chunks.append(b)
    finally:
        sel.close()
        os.close(r)
    if status == "timeout":
        try:
            os.kill(pid, signal.SIGUSR1)
            time.sleep(0.3)
            os.kill(pid, signal.SIGKILL)
        except OSError:
            pass
        os.waitpid(pid, 0)
        return "timeout", None
    _, st = os.waitpid(pid, 0)
    raw = b"".join(chunks)
    if not raw:
        return "died", st
    try:
        doc = json.loads(raw.decode())
    except ValueError:
        return "died", st
    if "exc" in doc:
        return "exc", doc["exc"]
    return "ok", doc["ok"]


# --------------------------------------------------------------------------- stats merge
def merge_stats(acc, add):
    """ints add, dicts merge recursively, lists are unions of strings (kept as dict-sets)."""
    for k, v in add.items():
        if isinstance(v, bool):
            acc[k] = acc.get(k, 0) + int(v)
        elif isinstance(v, (int, float)):
            acc[k] = acc.get(k, 0) + v
        elif isinstance(v, dict):
            merge_stats(acc.setdefault(k, {}), v)
        elif isinstance(v, list):
            s = acc.setdefault(k, set())
            if not isinstance(s, set):
                s = acc[k] = set(s)
            s.update(v)
    return acc


def finalize_stats(acc, keep=0):
    out = {}
    for k, v in acc.items():
        if isinstance(v, set):
            out[k + "#distinct"] = len(v)
            if keep:
                out[k + "#sample"] = sorted(v)[:keep]
        elif isinstance(v, dict):
            out[k] = finalize_stats(v, keep)
        else:
            out[k] = v
    return out


# --------------------------------------------------------------------------- workers
def _worker_main(sim, prop, verif_seed, tier, w, nw, n_runs, deadline, wfd, n_dup, extra):
    """One zygote: executes its stripe of run indexes; every run forks inside sim.run."""
    out = os.fdopen(wfd, "w")

    def emit(doc):
        out.write(canon_json(doc) + "\n")
        out.flush()

    idx = w
    todo = []
    # determinism duplicates: run index i (< n_dup) is ALSO executed by worker (i+1) % nw
    dups = [i for i in range(n_dup) if (i + 1) % nw == w and nw > 1]
    while True:
        if n_runs is not None and idx >= n_runs:
            break
        if deadline is not None and time.monotonic() >= deadline and idx >= nw * 2:
            break
        todo = idx
        seed = derive_seed(prop, verif_seed, idx)
        try:
            plan = sim.generate(prop, seed, tier, idx)
            res = sim.run(prop, plan)
            res["idx"] = idx
            res["seed"] = seed
            emit(slim(res, idx, extra))
        except HarnessError as e:
            emit({"idx": idx, "seed": seed, "harness_error": "HarnessError: %s" % e})
        except BaseException:
            emit({"idx": idx, "seed": seed, "harness_error": traceback.format_exc()})
        idx += nw
    for i in dups:
        seed = derive_seed(prop, verif_seed, i)
        try:
            plan = sim.generate(prop, seed, tier, i)
            res = sim.run(prop, plan)
            emit({"dup": i, "seed": seed, "digest": res.get("digest"),
                  "harness_error": res.get("harness_error")})
        except BaseException:
            emit({"dup": i, "seed": seed, "harness_error": traceback.format_exc()})
    emit({"worker_done": w})
    out.close()


def slim(res, idx, extra):
    """What goes back to the driver: full trace only for violating / sample runs."""
    keep_trace = bool(res.get("violations")) or idx < extra.get("n_samples", 3)
    doc = {k: res.get(k) for k in ("idx", "seed", "digest", "stats", "nontrivial",
                                     "harness_error", "violations", "sample")}
    if keep_trace:
        doc["trace"] = res.get("trace")
    return doc


def run_batch(sim, prop, verif_seed, tier, n_runs=None, seconds=None, n_dup=0, nw=None,
              on_result=None, extra=None):
    """Fork nw zygote workers; stream their results. Returns list of result docs."""
    nw = nw or NPROC
    extra = extra or {}
    deadline = (time.monotonic() + seconds) if seconds else None
    procs = []
    sel = selectors.DefaultSelector()
    sys.stdout.flush()
    sys.stderr.flush()
    for w in range(nw):
        r, wfd = os.pipe()
        pid = os.fork()
        if pid == 0:
            code = 0
            try:
                os.close(r)
                for (_p, rr) in procs:
                    try:
                        os.close(rr)
                    except OSError:
                        pass
                _worker_main(sim, prop, verif_seed, tier, w, nw, n_runs, deadline, wfd, n_dup, extra)
            except BaseException:
                traceback.print_exc()
                code = 3
            finally:
                os._exit(code)
        os.close(wfd)
        procs.append((pid, r))
        sel.register(r, selectors.EVENT_READ, data={"pid": pid, "buf": b"", "w": w, "done": False})
    results = []
    dups = {}
    errors = []
    live = len(procs)
    hard_deadline = time.monotonic() + (seconds or 0) + extra.get("grace", 900)
    while live:
        left = hard_deadline - time.monotonic()
        if left <= 0:
            errors.append("batch wall cap exceeded; killing workers")
            for pid, _r in procs:
                try:
                    os.kill(pid, signal.SIGKILL)
                except OSError:
                    pass
            break
        for key, _ev in sel.select(min(left, 5.0)):
            st = key.data
            b = os.read(key.fd, 1 << 16)
            if not b:
                sel.unregister(key.fd)
                os.close(key.fd)
                live -= 1
                if not st["done"]:
                    errors.append("worker %d died before finishing its stripe" % st["w"])
                continue
            st["buf"] += b
            while b"\n" in st["buf"]:
                line, st["buf"] = st["buf"].split(b"\n", 1)
                doc = json.loads(line.decode())
                if "worker_done" in doc:
                    st["done"] = True
                elif "dup" in doc:
                    dups[doc["dup"]] = doc
                else:
                    results.append(doc)
                    if on_result:
                        on_result(doc)
    for pid, _r in procs:
        try:
            os.waitpid(pid, 0)
        except OSError:
            pass
    results.sort(key=lambda d: d["idx"])
    return results, dups, errors


# --------------------------------------------------------------------------- minimiser
def vclasses(res):
    return set(v["class"] for v in (res.get("violations") or []))


def minimise(sim, prop, plan, vclass, budget=200, log=None, wall=240.0):
    """Greedy delta debugging driven by sim.shrink(); each candidate is a full
    simulated run (which forks). Keeps a candidate only if the same violation
    class persists."""
    best = plan
    spent = 0
    improved = True
    t_end = time.monotonic() + wall
    while improved and spent < budget and time.monotonic() < t_end:
        improved = False
        for cand in sim.shrink(prop, best):
            if spent >= budget or time.monotonic() >= t_end:
                break
            spent += 1
            try:
                r = sim.run(prop, cand)
            except Exception:
                continue
            if r.get("harness_error"):
                continue
            if vclass in vclasses(r):
                best = r["trace"]
                improved = True
                if log:
                    log("  shrink ok (%d tried): size=%d" % (spent, sim.size(prop, best)))
                break
    return best, spent


def _minimise_entry(sim, prop, plan, vclass, budget):
    best, spent = minimise(sim, prop, plan, vclass, budget)
    res = sim.run(prop, best)
    return {"trace": res["trace"], "violations": res.get("violations"), "spent": spent,
            "digest": res.get("digest")}


# --------------------------------------------------------------------------- known findings
def load_known():
    p = os.path.join(VERIF, "known_findings.json")
    if not os.path.exists(p):
        return {"findings": [], "fixed": []}
    with open(p) as f:
        return json.load(f)


def match_known(prop, violation, known):
    sig = violation.get("signature", {})
    for ent in known.get("findings", []):
        if ent.get("property") != prop:
            continue
        m = ent.get("match", {})
        if m and all(sig.get(k) == v for k, v in m.items()):
            return ent
    return None


# --------------------------------------------------------------------------- driver
def eprint(*a):
    print(*a, file=sys.stderr, flush=True)


def write_evidence(prop, doc):
    os.makedirs(os.path.join(OUT, "evidence"), exist_ok=True)
    p = os.path.join(OUT, "evidence", "%s.json" % prop)
    tmp = p + ".tmp"
    with open(tmp, "w") as f:
        json.dump(doc, f, indent=1, sort_keys=True, default=_json_default)
        f.write("\n")
    os.replace(tmp, p)


def replay_file(sim, prop, path):
    with open(path) as f:
        doc = json.load(f)
    want_backend = doc.get("backend", "ecdsa")
    if want_backend != BACKEND:
        os.environ["VERIF_BACKEND"] = want_backend
        os.execv(sys.executable, [sys.executable] + sys.argv)
    plan = doc["trace"] if "trace" in doc else doc
    st, res = fork_call(lambda: sim.run(prop, plan), timeout=600)
    if st != "ok":
        print("HARNESS-ERROR replay failed: %s %s" % (st, res))
        return 2
    if res.get("harness_error"):
        print("HARNESS-ERROR %s" % res["harness_error"])
        return 2
    want = doc.get("violation_class")
    got = sorted(vclasses(res))
    print("replay digest=%s violations=%s" % (res.get("digest"), got))
    if doc.get("digest") and res.get("digest") != doc["digest"]:
        # same tree => same digest (checked by the driver right after minimisation);
        # a different digest here means the code under test differs from the recording
        print("note: observation digest %s differs from the recorded %s (code under test changed?)"
              % (res.get("digest"), doc["digest"]))
    if got:
        for v in res["violations"]:
            print("  %s: %s" % (v["class"], v.get("detail")))
        known = load_known()
        unknown = [v for v in res["violations"] if not match_known(prop, v, known)]
        if want and want not in got:
            print("HARNESS-ERROR replay produced a different violation class (wanted %s)" % want)
            return 2
        if unknown:
            print("VIOLATION property=%s replay=%s" % (prop, path))
            return 1
        for v in res["violations"]:
            ent = match_known(prop, v, known)
            print("KNOWN-FINDING: property=%s %s" % (prop, ent["what"]))
        return 0
    if want:
        print("replay did not reproduce %s" % want)
    return 0


def run_check(sim, prop, tier, verif_seed, n_runs=None, seconds=None, level="exploration",
              selftest_hashseed=True):
    """The whole check: self-tests, batch, minimise, replay-verify, evidence, exit code."""
    t0 = time.time()
    eprint("[%s] tier=%s VERIF_SEED=%d workers=%d repo=%s" % (prop, tier, verif_seed, NPROC, REPO))
    harness_errors = []
    # 1. simulator self-tests (seam liveness, reference model) in a forked child
    st, res = fork_call(lambda: sim.selftest(prop), timeout=300)
    if st != "ok":
        print("HARNESS-ERROR selftest: %s\n%s" % (st, res))
        return 2
    selftest_info = res
    # 2. batch
    import tempfile
    import shutil
    import glob
    for stale in glob.glob(os.path.join(tempfile.gettempdir(), "verif-*")):
        # scratch left behind by a killed earlier invocation (never needed by anything): drop it after 3 hours
        try:
            if time.time() - os.path.getmtime(stale) > 3 * 3600:
                shutil.rmtree(stale, ignore_errors=True)
        except OSError:
            pass
    scratch = tempfile.mkdtemp(prefix="verif-scratch-")       # per-invocation scratch (oracle answer cache), removed below
    os.environ["VERIF_ISO_CACHE"] = scratch
    n_dup = sim.n_dup(prop, tier)
    if n_runs is None and seconds is None:
        if tier == "quick":
            n_runs = sim.quick_runs(prop)
        else:
            seconds = sim.thorough_seconds(prop)
    results, dups, errors = run_batch(sim, prop, verif_seed, tier, n_runs=n_runs, seconds=seconds,
                                      n_dup=n_dup, extra={"n_samples": 3, "grace": 1200})
    harness_errors += errors
    # 3. determinism: same seed twice in different workers
    by_idx = {r["idx"]: r for r in results}
    det_checked = 0
    for i, d in sorted(dups.items()):
        a = by_idx.get(i)
        if a is None or d.get("harness_error") or a.get("harness_error"):
            continue
        det_checked += 1
        if a.get("digest") != d.get("digest"):
            harness_errors.append("nondeterminism: run %d digest %s vs %s in another worker"
                                  % (i, a.get("digest"), d.get("digest")))
    # 3b. fresh interpreter, different PYTHONHASHSEED, different worker count
    hs_checked = 0
    if selftest_hashseed and n_dup:
        k = min(n_dup, 8 if tier == "quick" else 48)
        import subprocess
        env = dict(os.environ, VERIF_HASHSEED="7", PYTHONHASHSEED="7", VERIF_WORKERS="3",
                   VERIF_SEED=str(verif_seed))
        try:
            out = subprocess.run([sys.executable, os.path.join(VERIF, "check"), prop,
                                  "--digests", str(k), "--tier", tier],
                                 env=env, capture_output=True, text=True, timeout=900)
            got = json.loads(out.stdout.strip().splitlines()[-1])
            for i, dg in got.items():
                a = by_idx.get(int(i))
                if a is None or a.get("harness_error"):
                    continue
                hs_checked += 1
                if a.get("digest") != dg:
                    harness_errors.append("nondeterminism: run %s digest differs under PYTHONHASHSEED=7"
                                          " / 3 workers (%s vs %s)" % (i, a.get("digest"), dg))
        except Exception as e:
            harness_errors.append("hash-seed determinism self-test failed to run: %r %s"
                                  % (e, locals().get("out") and out.stderr[-2000:]))
    # 4. aggregate
    stats = {}
    digests = set()
    nontrivial = set()
    samples = []
    viol_runs = []
    for r in results:
        if r.get("harness_error"):
            harness_errors.append("run %d (seed %d): %s" % (r["idx"], r["seed"], r["harness_error"]))
            continue
        merge_stats(stats, r.get("stats") or {})
        digests.add(r.get("digest"))
        if r.get("nontrivial"):
            nontrivial.add(r.get("digest"))
        if r.get("trace") is not None and len(samples) < 3 and not r.get("violations"):
            samples.append(r.get("sample") or r["trace"])
        if r.get("violations"):
            viol_runs.append(r)
    # 5. violations: group by class, minimise one representative per class
    known = load_known()
    by_class = {}
    for r in viol_runs:
        for v in r["violations"]:
            # a run whose signature does not match the known finding its class-mates match is its own group
            ent = match_known(prop, v, known)
            by_class.setdefault((v["class"], ent["id"] if ent else None), []).append((r, v))
    reported = []
    known_hits = {}
    os.makedirs(os.path.join(OUT, "replays"), exist_ok=True)
    for gkey in sorted(by_class, key=lambda k: (k[0], str(k[1]))):
        vclass = gkey[0]
        r, v = by_class[gkey][0]
        eprint("[%s] violation class %s in %d runs; minimising run %d (seed %d)"
               % (prop, vclass, len(by_class[gkey]), r["idx"], r["seed"]))
        n_min = len(reported) + len(known_hits)
        if n_min < 3:
            st, m = fork_call(_minimise_entry, (sim, prop, r["trace"], vclass, 600), timeout=1800)
        else:       # further classes of the same batch: reported with their original (unshrunk) trace
            st, m = "ok", {"trace": r["trace"], "violations": r["violations"], "spent": 0, "digest": r["digest"]}
        if st != "ok":
            harness_errors.append("minimiser failed for %s: %s %s" % (vclass, st, m))
            m = {"trace": r["trace"], "violations": r["violations"], "spent": 0, "digest": r["digest"]}
        mv = [x for x in (m["violations"] or []) if x["class"] == vclass]
        if not mv:
            harness_errors.append("minimised trace lost violation %s" % vclass)
            continue
        ent = match_known(prop, mv[0], known)
        if (ent["id"] if ent else None) != gkey[1]:
            # minimisation must not turn an unknown violation into a known one (or vice versa)
            m = {"trace": r["trace"], "violations": r["violations"], "spent": 0, "digest": r["digest"]}
            mv = [x for x in r["violations"] if x["class"] == vclass]
            ent = match_known(prop, mv[0], known)
        path = os.path.join(OUT, "replays", "%s-%s%d.json" % (prop, "" if BACKEND == "ecdsa" else BACKEND + "-", r["seed"]))
        if ent is None:
            k = 0
            while os.path.exists(path) and k < 50:
                k += 1
                path = os.path.join(OUT, "replays", "%s-%d-%d.json" % (prop, r["seed"], k))
        else:
            path = os.path.join(OUT, "replays", "known-%s-%s.json" % (prop, ent["id"]))
        doc = {"property": prop, "seed": r["seed"], "verif_seed": verif_seed, "run_index": r["idx"], "backend": BACKEND,
               "violation_class": vclass, "violation": mv[0], "digest": m["digest"],
               "minimiser_candidates": m["spent"], "trace": m["trace"]}
        with open(path, "w") as f:
            json.dump(doc, f, indent=1, sort_keys=True, default=_json_default)
            f.write("\n")
        # replay the minimised file in a fresh process; must reproduce exactly
        import subprocess
        rp = subprocess.run([sys.executable, os.path.join(VERIF, "check"), prop, "--replay", path],
                            capture_output=True, text=True, timeout=900,
                            env=dict(os.environ, VERIF_HASHSEED="0", PYTHONHASHSEED="0", VERIF_BACKEND=BACKEND))
        want_rc = 0 if ent is not None else 1
        if rp.returncode != want_rc:
            harness_errors.append("replay of %s in a fresh process returned %d (wanted %d): %s"
                                  % (path, rp.returncode, want_rc, rp.stdout[-1500:] + rp.stderr[-1500:]))
            continue
        if ent is not None:
            known_hits.setdefault(ent["id"], (ent, 0, path))
            known_hits[ent["id"]] = (ent, known_hits[ent["id"]][1] + len(by_class[gkey]), path)
        else:
            reported.append((vclass, mv[0], path, len(by_class[gkey])))
    for kid, (ent, cnt, path) in sorted(known_hits.items()):
        print("KNOWN-FINDING: property=%s %s [%s; %d runs; replay=%s]"
              % (prop, ent["what"], kid, cnt, os.path.relpath(path, OUT)))
    for vclass, v, path, cnt in reported:
        print("VIOLATION property=%s replay=%s class=%s runs=%d detail=%s"
              % (prop, path, vclass, cnt, json.dumps(v.get("detail"), default=str)[:600]))
    shutil.rmtree(scratch, ignore_errors=True)
    os.environ.pop("VERIF_ISO_CACHE", None)
    # 6. evidence
    wall = time.time() - t0
    ok_runs = len([r for r in results if not r.get("harness_error")])
    fin = finalize_stats(stats, keep=4)
    cov = {
        "evaluations": ok_runs,
        "distinct_nontrivial": len(nontrivial),
        "rule": sim.rule(prop),
        "samples": samples[:3] or [{"note": "no clean sample run"}],
        "simulated_runs": ok_runs,
        "seeds": ok_runs,
        "runs_per_hour": int(ok_runs / wall * 3600) if wall > 0 else 0,
        "seeds_per_hour": int(ok_runs / wall * 3600) if wall > 0 else 0,
        "distinct_run_digests": len(digests),
        "determinism": {"same_seed_other_worker_pairs": det_checked,
                        "fresh_interpreter_other_hashseed_and_worker_count": hs_checked,
                        "mismatches": len([e for e in harness_errors if "nondeterminism" in e])},
        "selftest": selftest_info,
        "stats": fin,
        "violating_runs": len(viol_runs),
        "violation_classes": sorted(set(k[0] for k in by_class)),
        "known_findings_hit": {k: v[1] for k, v in known_hits.items()},
        "harness_errors": harness_errors[:20],
        "real_components": sim.real_components(prop),
        "stub_components": sim.stub_components(prop),
        "exhaustive": False,
    }
    cov.update(sim.coverage_extra(prop, fin))
    try:
        xcov, xerr = sim.extra_checks(prop, tier, verif_seed)
    except Exception:
        xcov, xerr = {}, ["extra_checks crashed: " + traceback.format_exc()]
    cov.update(xcov)
    harness_errors += xerr
    # secondary back end (stub of pysecp256k1): a separate interpreter, because the library picks its back end
    # at import time; its violations are real verdicts about the primary code path and are printed as such
    sub_viol = 0
    if BACKEND == "ecdsa" and not os.environ.get("VERIF_NO_SECONDARY"):
        for be, n_sub, secs_sub in sim.secondary_backends(prop, tier):
            import subprocess
            import tempfile
            import shutil
            tmpo = tempfile.mkdtemp(prefix="verif-sub-")
            try:
                cmd = [sys.executable, os.path.join(VERIF, "check"), prop, "--tier", tier, "--no-hashseed-selftest"]
                cmd += ["--runs", str(n_sub)] if n_sub else ["--seconds", str(secs_sub)]
                envs = dict(os.environ, VERIF_BACKEND=be, VERIF_OUT=tmpo, VERIF_SEED=str(verif_seed),
                            VERIF_NO_SECONDARY="1", VERIF_IS_SECONDARY="1")
                sp = subprocess.run(cmd, env=envs, capture_output=True, text=True, timeout=7200)
                sub_ev = {}
                try:
                    with open(os.path.join(tmpo, "evidence", "%s.json" % prop)) as f:
                        sub_ev = json.load(f)
                except Exception:
                    pass
                sc = sub_ev.get("coverage", {})
                cov["backend_%s" % be] = {
                    "what": ("same simulator in a separate interpreter started with PYTHONOPTIMIZE=1 (python -O): assert "
                             "statements of the library are stripped, as in an optimised deployment") if be.endswith("-O")
                    else ("same simulator, library imported with sim/fake_secp.py registered as pysecp256k1 "
                          "(stub of the C library's contract): exercises the primary-path glue that is dead code "
                          "with the real package here"),
                    "exit": sp.returncode, "runs": sc.get("evaluations", 0),
                    "distinct_nontrivial": sc.get("distinct_nontrivial", 0),
                    "fault_kinds_fired": sc.get("fault_kinds_fired"), "violations": sub_ev.get("violations"),
                    "fault_matrix_cells_hit": sc.get("fault_matrix_cells_hit"),
                    "harness_errors": sc.get("harness_errors")}
                for line in sp.stdout.splitlines():
                    if line.startswith("VIOLATION property=%s " % prop):
                        m = line.split("replay=", 1)[1].split(" ", 1)
                        src = m[0]
                        dst = os.path.join(OUT, "replays", os.path.basename(src))
                        try:
                            shutil.copy(src, dst)
                        except Exception:
                            dst = src
                        print("VIOLATION property=%s replay=%s %s [backend=%s]" % (prop, dst, m[1] if len(m) > 1 else "", be))
                        sub_viol += 1
                    elif line.startswith("KNOWN-FINDING:"):
                        print(line + " [backend=%s]" % be)
                if sp.returncode == 2 or (sp.returncode not in (0, 1)):
                    harness_errors.append("secondary back end %s run failed (exit %d): %s"
                                          % (be, sp.returncode, (sp.stdout + sp.stderr)[-1500:]))
            finally:
                shutil.rmtree(tmpo, ignore_errors=True)
    cov["backend"] = BACKEND
    cov["harness_errors"] = harness_errors[:20]
    wall = time.time() - t0
    ev = {"property_id": prop, "tier": tier, "seed": verif_seed, "level": level,
          "coverage": cov, "assumptions": sim.assumptions(prop), "wall_s": round(wall, 2),
          "violations": len(reported) + sub_viol}
    write_evidence(prop, ev)
    eprint("[%s] runs=%d nontrivial-distinct=%d violations=%d known=%d harness_errors=%d wall=%.1fs"
           % (prop, ok_runs, len(nontrivial), len(reported), len(known_hits), len(harness_errors), wall))
    # reach requirements (a cell stuck at zero is a harness error, not a pass)
    # A secondary batch (another back end / interpreter configuration, a fraction of the main batch's size) is not
    # held to them: reach is established by the main batch, and a small batch missing a rare cell is luck, not a defect.
    if os.environ.get("VERIF_IS_SECONDARY"):
        for msg in sim.reach_failures(prop, fin, tier):
            eprint("[%s] note (secondary batch, not fatal): reach: %s" % (prop, msg))
    else:
        for msg in sim.reach_failures(prop, fin, tier):
            harness_errors.append("reach: " + msg)
    if reported or sub_viol:
        for e in harness_errors[:10]:
            eprint("HARNESS-ERROR " + e)
        return 1
    if harness_errors:
        for e in harness_errors[:20]:
            print("HARNESS-ERROR " + e[:3000])
        return 2
    print("OK property=%s tier=%s runs=%d" % (prop, tier, ok_runs))
    return 0


def digests_only(sim, prop, tier, verif_seed, k):
    results, _d, errors = run_batch(sim, prop, verif_seed, tier, n_runs=k, n_dup=0)
    print(json.dumps({str(r["idx"]): r.get("digest") for r in results if not r.get("harness_error")}))
    return 0
