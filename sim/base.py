"""Base class for simulators (defaults for the hooks the core driver calls)."""


class Simulator:
    props = ()

    def selftest(self, prop):
        return {}

    def generate(self, prop, seed, tier, idx):
        raise NotImplementedError

    def run(self, prop, plan):
        raise NotImplementedError

    def shrink(self, prop, plan):
        return iter(())

    def size(self, prop, plan):
        return 0

    def n_dup(self, prop, tier):
        return 32 if tier == "quick" else 256

    def quick_runs(self, prop):
        return 500

    def thorough_seconds(self, prop):
        return 600

    def rule(self, prop):
        return ""

    def coverage_extra(self, prop, stats):
        return {}

    def secondary_backends(self, prop, tier):
        """[(backend, n_runs or None, seconds or None)] batches to run in a separate interpreter after the main one."""
        return []

    def extra_checks(self, prop, tier, verif_seed):
        """Optional non-simulated cross-checks run by the driver after the batch: -> (coverage dict, harness errors)."""
        return {}, []

    def reach_failures(self, prop, stats, tier):
        return []

    def real_components(self, prop):
        return []

    def stub_components(self, prop):
        return []

    def assumptions(self, prop):
        return []


def chunked_drops(seq, min_chunk=1):
    """ddmin-style candidates: yield copies of seq with a chunk removed, big chunks first."""
    n = len(seq)
    if n == 0:
        return
    size = n
    seen = set()
    while size >= min_chunk:
        for start in range(0, n, size):
            key = (start, min(n, start + size))
            if key in seen or (key[0] == 0 and key[1] == n and n > 1 and False):
                continue
            seen.add(key)
            yield seq[:key[0]] + seq[key[1]:]
        if size == 1:
            break
        size = max(1, size // 2)
