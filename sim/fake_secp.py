"""A stub of the `pysecp256k1` package (the ctypes wrapper around libsecp256k1
that btc_hd_wallet prefers when it is importable), built on the harness's own
reference curve.  libsecp256k1 is absent from this sandbox, so the library's
primary code path is dead here; with `VERIF_BACKEND=stub` this module is
registered as `pysecp256k1` *before* btc_hd_wallet is imported and the primary
path glue (PrivateKey.__init__/tweak_add, PublicKey.parse/sec/tweak_add, the
`ec_seckey_verify` branches of master_key / correct_key) runs for real.

It is a stub of a C library's CONTRACT, written from the wrapper's docstrings
(python-secp256k1 0.2.0) and libsecp256k1's documented behaviour:
  * arguments of the wrong type/length -> ValueError
  * invalid secret key (0 or >= n), overflowing tweak (>= n), tweak that
    yields key 0 / the point at infinity, unparsable public key
    -> Libsecp256k1Exception
  * ec_pubkey_tweak_add mutates the pubkey object in place and returns it
    (as the C function does)
  * a tweak of 0 is accepted by the tweak_add functions (what the C code does;
    the header comment that mentions ec_seckey_verify is stricter than the code)
Evidence labels every run made with it as `backend: stub`.
"""
import sys
import types

from .ref import secp


class Libsecp256k1Exception(Exception):
    pass


CALLS = [0]      # number of calls into the stub (liveness probe of the back-end selection)


class _Pubkey:
    """Opaque 64-byte internal public key of the real wrapper; here: an affine point."""
    __slots__ = ("pt",)

    def __init__(self, pt):
        self.pt = pt

    @property
    def raw(self):
        return self.pt[0].to_bytes(32, "big") + self.pt[1].to_bytes(32, "big")


def _b32(name, v):
    if not isinstance(v, bytes):
        raise ValueError("'%s' must be of type bytes" % name)
    if len(v) != 32:
        raise ValueError("'%s' must be exactly 32 bytes long" % name)
    return int.from_bytes(v, "big")


def _pk(v):
    if not isinstance(v, _Pubkey):
        raise ValueError("'pubkey' must be a Secp256k1Pubkey")
    return v


def ec_seckey_verify(seckey):
    CALLS[0] += 1
    k = _b32("seckey", seckey)
    if k == 0 or k >= secp.N:
        raise Libsecp256k1Exception("secret key is invalid")


def ec_pubkey_create(seckey):
    CALLS[0] += 1
    k = _b32("seckey", seckey)
    if k == 0 or k >= secp.N:
        raise Libsecp256k1Exception("secret key is invalid")
    return _Pubkey(secp.mul_g(k))


def ec_pubkey_serialize(pubkey, compressed=True):
    CALLS[0] += 1
    p = _pk(pubkey).pt
    if not isinstance(compressed, bool):
        raise ValueError("'compressed' must be of type bool")
    if compressed:
        return secp.ser_p(p)
    return b"\x04" + p[0].to_bytes(32, "big") + p[1].to_bytes(32, "big")


def ec_pubkey_parse(pubkey_ser):
    CALLS[0] += 1
    if not isinstance(pubkey_ser, bytes):
        raise ValueError("'pubkey_ser' must be of type bytes")
    if len(pubkey_ser) not in (33, 65):
        raise ValueError("'pubkey_ser' must be 33 or 65 bytes long")
    try:
        if len(pubkey_ser) == 33:
            return _Pubkey(secp.parse_p(pubkey_ser))
        if pubkey_ser[0] not in (4, 6, 7):
            raise ValueError
        pt = (int.from_bytes(pubkey_ser[1:33], "big"), int.from_bytes(pubkey_ser[33:], "big"))
        if pt[0] >= secp.P or pt[1] >= secp.P or not secp.on_curve(pt):
            raise ValueError
        return _Pubkey(pt)
    except ValueError:
        raise Libsecp256k1Exception("pubkey could not be parsed or is invalid")


def ec_seckey_tweak_add(seckey, tweak32):
    CALLS[0] += 1
    k = _b32("seckey", seckey)
    t = _b32("tweak32", tweak32)
    if k == 0 or k >= secp.N or t >= secp.N or (k + t) % secp.N == 0:
        raise Libsecp256k1Exception("arguments are invalid or the resulting secret key would be invalid"
                                    " (only when the tweak is the negation of the secret key)")
    return ((k + t) % secp.N).to_bytes(32, "big")


def ec_pubkey_tweak_add(pubkey, tweak32):
    CALLS[0] += 1
    p = _pk(pubkey)
    t = _b32("tweak32", tweak32)
    res = secp.add(secp.mul_g(t), p.pt) if t < secp.N else None
    if t >= secp.N or res is secp.INF:
        raise Libsecp256k1Exception("arguments are invalid or the resulting public key would be invalid"
                                    " (only when the tweak is the negation of the corresponding secret key)")
    p.pt = res              # in place, like the C function
    return p


def install():
    if "pysecp256k1" in sys.modules and getattr(sys.modules["pysecp256k1"], "__verif_stub__", False):
        return sys.modules["pysecp256k1"]
    m = types.ModuleType("pysecp256k1")
    m.__verif_stub__ = True
    for f in (ec_seckey_verify, ec_pubkey_create, ec_pubkey_serialize, ec_pubkey_parse, ec_seckey_tweak_add,
              ec_pubkey_tweak_add):
        setattr(m, f.__name__, f)
    m.Libsecp256k1Exception = Libsecp256k1Exception
    sys.modules["pysecp256k1"] = m
    return m
