"""Entropy device seam (S1): replaces the OS random source seen by Python code
(`random._urandom` used by SystemRandom/secrets, `os.urandom`, `os.getrandom`,
open('/dev/urandom'|'/dev/random')) by a deterministic stream keyed by
(run key, epoch), records every request and can be put into a fault state.
Also pins the other things a weak generator could draw from: clock and pid.
"""
import io
import os
import time
import errno
import random
import hashlib
import builtins


class EntropyDevice:
    def __init__(self, key):
        self.key = key if isinstance(key, bytes) else str(key).encode()
        self.epoch = 0
        self.counter = 0
        self.buf = b""
        self.requests = []          # [n_bytes, tag, epoch, outcome]
        self.tag = None             # operation in flight (set by the executor)
        self.fault = None           # None | "EIO" | "NOSYS" | "EAGAIN_ONCE"
        self.fault_hits = {}
        self.served = b""
        self._saved = []

    def reseed(self, key=None, epoch=None):
        if key is not None:
            self.key = key if isinstance(key, bytes) else str(key).encode()
        if epoch is not None:
            self.epoch = epoch
        self.counter = 0
        self.buf = b""

    def _more(self):
        blk = hashlib.sha512(b"entropy-device|" + self.key + b"|%d|%d" % (self.epoch, self.counter)).digest()
        self.counter += 1
        self.buf += blk

    def read(self, n, via="urandom"):
        n = int(n)
        if self.fault is not None:
            f = self.fault
            self.fault_hits[f] = self.fault_hits.get(f, 0) + 1
            self.requests.append([n, self.tag, self.epoch, f, via])
            if f == "EIO":
                raise OSError(errno.EIO, "Input/output error (simulated entropy device)")
            if f == "NOSYS":
                raise NotImplementedError("no OS randomness source (simulated)")
            if f == "EAGAIN_ONCE":
                self.fault = None
                raise BlockingIOError(errno.EAGAIN, "entropy pool not initialised (simulated)")
        while len(self.buf) < n:
            self._more()
        out, self.buf = self.buf[:n], self.buf[n:]
        self.requests.append([n, self.tag, self.epoch, "ok", via])
        self.served += out
        return out

    def bytes_requested(self, tag=None):
        return sum(r[0] for r in self.requests if (tag is None or r[1] == tag))

    # ------------------------------------------------------------------ install
    def install(self, pin_clock=True):
        dev = self
        self._saved.append((random, "_urandom", random._urandom))
        random._urandom = lambda n: dev.read(n, "random._urandom")
        self._saved.append((os, "urandom", os.urandom))
        os.urandom = lambda n: dev.read(n, "os.urandom")
        if hasattr(os, "getrandom"):
            self._saved.append((os, "getrandom", os.getrandom))
            os.getrandom = lambda n, flags=0: dev.read(n, "os.getrandom")
        prev_open = builtins.open
        prev_io_open = io.open

        def mk(prev):
            def dev_open(file, *a, **kw):
                if isinstance(file, (str, bytes)) and os.fspath(file) in ("/dev/urandom", "/dev/random",
                                                                         b"/dev/urandom", b"/dev/random"):
                    return _DevFile(dev)
                return prev(file, *a, **kw)
            return dev_open
        self._saved.append((builtins, "open", prev_open))
        builtins.open = mk(prev_open)
        self._saved.append((io, "open", prev_io_open))
        io.open = mk(prev_io_open)
        if pin_clock:
            self.clock = SimClock()
            self.clock.install(self._saved)

    def uninstall(self):
        for mod, name, val in reversed(self._saved):
            setattr(mod, name, val)
        self._saved = []


class _DevFile(io.RawIOBase):
    def __init__(self, dev):
        super().__init__()
        self.dev = dev

    def readable(self):
        return True

    def read(self, n=-1):
        return self.dev.read(32 if n is None or n < 0 else n, "open(/dev/urandom)")

    def readinto(self, b):
        data = self.dev.read(len(b), "open(/dev/urandom)")
        b[:len(data)] = data
        return len(data)


class SimClock:
    """time.* and os.getpid pinned to simulated values the plan controls."""

    def __init__(self, t0=1_700_000_000.0):
        self.now = t0
        self.pid = 4242

    def install(self, saved):
        c = self
        for name, fn in (("time", lambda: c.now), ("time_ns", lambda: int(c.now * 1e9)),
                         ("monotonic", lambda: c.now - 1_600_000_000.0),
                         ("monotonic_ns", lambda: int((c.now - 1_600_000_000.0) * 1e9)),
                         ("perf_counter", lambda: c.now - 1_600_000_000.0),
                         ("perf_counter_ns", lambda: int((c.now - 1_600_000_000.0) * 1e9)),
                         ("process_time", lambda: 1.0)):
            saved.append((time, name, getattr(time, name)))
            setattr(time, name, fn)
        saved.append((os, "getpid", os.getpid))
        os.getpid = lambda: c.pid
