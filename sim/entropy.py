"""Entropy device seam (S1): replaces the OS random source seen by Python code
(`random._urandom` used by SystemRandom/secrets, `os.urandom`, `os.getrandom`,
open('/dev/urandom'|'/dev/random')) by a deterministic stream keyed by
(run key, epoch), records every request and can be put into a fault state.
Also pins the other things a weak generator could draw from: clock and pid.
"""
import io
import os
import time
import errno
import random
import hashlib
import builtins


class EntropyDevice:
    def __init__(self, key):
        self.key = key if isinstance(key, bytes) else str(key).encode()
        self.epoch = 0
        self.counter = 0
        self.buf = b""
        self.requests = []          # [n_bytes, tag, epoch, outcome]
        self._tag = None            # operation in flight (set by the executor; per thread via thread_tags)
        self.fault = None           # None | "EIO" | "NOSYS" | "EAGAIN_ONCE"
        self.fault_hits = {}
        self.served = b""
        self.forced = None          # bytes to serve next instead of the keyed stream (bit-sensitivity tests)
        self.env_reads = {}         # environment variables read while a request was in flight
        self.thread_tags = {}       # thread ident -> tag (concurrent clients: each request is booked to its caller)
        self._saved = []

    def reseed(self, key=None, epoch=None):
        if key is not None:
            self.key = key if isinstance(key, bytes) else str(key).encode()
        if epoch is not None:
            self.epoch = epoch
        self.counter = 0
        self.buf = b""

    def _more(self):
        blk = hashlib.sha512(b"entropy-device|" + self.key + b"|%d|%d" % (self.epoch, self.counter)).digest()
        self.counter += 1
        self.buf += blk

    def _cur_tag(self):
        if self.thread_tags:
            import threading
            t = self.thread_tags.get(threading.get_ident())
            if t is not None:
                return t
        return self._tag

    tag = property(_cur_tag, lambda self, v: setattr(self, "_tag", v))

    def read(self, n, via="urandom"):
        n = int(n)
        if self.fault is not None:
            f = self.fault
            self.fault_hits[f] = self.fault_hits.get(f, 0) + 1
            self.requests.append([n, self.tag, self.epoch, f, via])
            if f == "EIO":
                raise OSError(errno.EIO, "Input/output error (simulated entropy device)")
            if f == "NOSYS":
                raise NotImplementedError("no OS randomness source (simulated)")
            if f == "EAGAIN_ONCE":
                self.fault = None
                raise BlockingIOError(errno.EAGAIN, "entropy pool not initialised (simulated)")
            if f == "EPERM":
                raise PermissionError(errno.EPERM, "Operation not permitted (simulated seccomp policy)")
            if f == "EACCES":
                raise PermissionError(errno.EACCES, "Permission denied (simulated)")
            if f == "ENOENT":
                raise FileNotFoundError(errno.ENOENT, "No such file or directory: '/dev/urandom' (simulated chroot)")
            if f == "ENOSYS":
                raise OSError(errno.ENOSYS, "Function not implemented (simulated old kernel)")
            if f == "EINTR_ONCE":
                self.fault = None
                raise InterruptedError(errno.EINTR, "Interrupted system call (simulated)")
            if f == "EMFILE":
                raise OSError(errno.EMFILE, "Too many open files (simulated)")
        if self.forced is not None:
            while len(self.forced) < n:
                self.forced += hashlib.sha512(b"forced-tail|" + self.forced[-64:]).digest()
            out, self.forced = self.forced[:n], self.forced[n:]
            self.requests.append([n, self.tag, self.epoch, "ok", via])
            self.served += out
            return out
        while len(self.buf) < n:
            self._more()
        out, self.buf = self.buf[:n], self.buf[n:]
        self.requests.append([n, self.tag, self.epoch, "ok", via])
        self.served += out
        return out

    def bytes_requested(self, tag=None):
        return sum(r[0] for r in self.requests if (tag is None or r[1] == tag))

    # ------------------------------------------------------------------ install
    def install(self, pin_clock=True):
        dev = self
        self._saved.append((random, "_urandom", random._urandom))
        random._urandom = lambda n: dev.read(n, "random._urandom")
        self._saved.append((os, "urandom", os.urandom))
        os.urandom = lambda n: dev.read(n, "os.urandom")
        if hasattr(os, "getrandom"):
            self._saved.append((os, "getrandom", os.getrandom))
            os.getrandom = lambda n, flags=0: dev.read(n, "os.getrandom")
        prev_open = builtins.open
        prev_io_open = io.open

        def mk(prev):
            def dev_open(file, *a, **kw):
                if isinstance(file, (str, bytes)) and os.fspath(file) in ("/dev/urandom", "/dev/random",
                                                                         b"/dev/urandom", b"/dev/random"):
                    return _DevFile(dev)
                return prev(file, *a, **kw)
            return dev_open
        self._saved.append((builtins, "open", prev_open))
        builtins.open = mk(prev_open)
        self._saved.append((io, "open", prev_io_open))
        io.open = mk(prev_io_open)
        if pin_clock:
            self.clock = SimClock()
            self.clock.install(self._saved)
        self._install_env_seam()

    def _install_env_seam(self):
        """os.environ / os.getenv as seen through the `os` module log which variables are READ while a tagged
        request is in flight, and serve planted values for them (adaptive fault injection: a variable the code
        was seen to consult is set to a truthy value in a later request)."""
        dev = self
        real = os.environ
        self.env_planted = {}

        class LoggingEnviron(type(real)):
            def __init__(self_inner):
                pass

            def __getattr__(self_inner, name):
                return getattr(real, name)

            def _log(self_inner, key):
                if dev.tag is not None and isinstance(key, str):
                    dev.env_reads[key] = dev.env_reads.get(key, 0) + 1

            def __getitem__(self_inner, key):
                self_inner._log(key)
                if dev.tag is not None and key in dev.env_planted:
                    return dev.env_planted[key]
                return real[key]

            def get(self_inner, key, default=None):
                self_inner._log(key)
                if dev.tag is not None and key in dev.env_planted:
                    return dev.env_planted[key]
                return real.get(key, default)

            def __contains__(self_inner, key):
                self_inner._log(key)
                if dev.tag is not None and key in dev.env_planted:
                    return True
                return key in real

            def __iter__(self_inner):
                return iter(real)

            def __len__(self_inner):
                return len(real)

            def __setitem__(self_inner, key, value):
                real[key] = value

            def __delitem__(self_inner, key):
                del real[key]

            def copy(self_inner):
                return real.copy()

        try:
            wrapped = LoggingEnviron()
        except Exception:
            return
        self._saved.append((os, "environ", real))
        os.environ = wrapped
        self._saved.append((os, "getenv", os.getenv))
        os.getenv = lambda key, default=None: wrapped.get(key, default)

    def uninstall(self):
        for mod, name, val in reversed(self._saved):
            setattr(mod, name, val)
        self._saved = []


class _DevFile(io.RawIOBase):
    def __init__(self, dev):
        super().__init__()
        self.dev = dev

    def readable(self):
        return True

    def read(self, n=-1):
        return self.dev.read(32 if n is None or n < 0 else n, "open(/dev/urandom)")

    def readinto(self, b):
        data = self.dev.read(len(b), "open(/dev/urandom)")
        b[:len(data)] = data
        return len(data)


class SimClock:
    """time.* and os.getpid pinned to simulated values the plan controls."""

    def __init__(self, t0=1_700_000_000.0):
        self.now = t0
        self.pid = 4242

    def install(self, saved):
        c = self
        for name, fn in (("time", lambda: c.now), ("time_ns", lambda: int(c.now * 1e9)),
                         ("monotonic", lambda: c.now - 1_600_000_000.0),
                         ("monotonic_ns", lambda: int((c.now - 1_600_000_000.0) * 1e9)),
                         ("perf_counter", lambda: c.now - 1_600_000_000.0),
                         ("perf_counter_ns", lambda: int((c.now - 1_600_000_000.0) * 1e9)),
                         ("process_time", lambda: 1.0)):
            saved.append((time, name, getattr(time, name)))
            setattr(time, name, fn)
        saved.append((os, "getpid", os.getpid))
        os.getpid = lambda: c.pid
