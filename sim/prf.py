"""PRF seam: HMAC-SHA512 as seen by the library is replaced by a stub that
computes the real HMAC (own implementation), records (key, msg) and lets a
handler substitute the output.  Installed on the stdlib names `hmac.new`,
`hmac.digest`, `hmac.HMAC` and on the module-level names `hmac_sha512` in
btc_hd_wallet.helper / bip32 / bip85, so that a refactor which stops using one
of them is still intercepted (the outermost interception decides; inner ones
only count that they were reached).
"""
import hashlib
import hmac as _hmac

from .ref.codecs import hmac_sha512 as ref_hmac_sha512


def _is_sha512(digestmod):
    if digestmod is None:
        return False
    if digestmod is hashlib.sha512:
        return True
    if isinstance(digestmod, str):
        return digestmod.lower() == "sha512"
    try:
        return digestmod().name == "sha512"
    except Exception:
        return getattr(digestmod, "__name__", "") in ("sha512", "openssl_sha512")


class PrfSeam:
    def __init__(self):
        self.depth = 0
        self.handler = None          # callable(key, msg, real) -> bytes
        self.calls = 0
        self.reached = {"module_name": 0, "hmac.new": 0, "hmac.digest": 0}
        self._saved = []
        self.installed = False

    # every interception funnels here
    def _prf(self, key, msg, where, compute_real):
        self.reached[where] = self.reached.get(where, 0) + 1
        if self.depth > 0 or self.handler is None:
            return compute_real()
        self.depth += 1
        try:
            self.calls += 1
            real = ref_hmac_sha512(bytes(key), bytes(msg))
            return self.handler(bytes(key), bytes(msg), real)
        finally:
            self.depth -= 1

    def install(self):
        if self.installed:
            return
        seam = self
        orig_new, orig_digest, orig_HMAC = _hmac.new, _hmac.digest, _hmac.HMAC

        class FakeHMAC:
            """Enough of the hmac.HMAC interface for one-shot and update() use."""

            def __init__(self, key, msg=None, digestmod=""):
                self._key = bytes(key)
                self._msg = bytes(msg) if msg is not None else b""
                self.digest_size = 64
                self.block_size = 128
                self.name = "hmac-sha512"

            def update(self, m):
                self._msg += bytes(m)

            def copy(self):
                c = FakeHMAC(self._key, self._msg)
                return c

            def digest(self):
                k, m = self._key, self._msg
                return seam._prf(k, m, "hmac.new", lambda: orig_new(k, m, hashlib.sha512).digest())

            def hexdigest(self):
                return self.digest().hex()

        def new(key, msg=None, digestmod=""):
            if _is_sha512(digestmod):
                return FakeHMAC(key, msg, digestmod)
            return orig_new(key, msg, digestmod)

        def digest(key, msg, digest):
            if _is_sha512(digest):
                return seam._prf(key, msg, "hmac.digest", lambda: orig_digest(key, msg, digest))
            return orig_digest(key, msg, digest)

        self._saved.append((_hmac, "new", orig_new))
        self._saved.append((_hmac, "digest", orig_digest))
        _hmac.new = new
        _hmac.digest = digest
        import btc_hd_wallet.helper as helper
        import btc_hd_wallet.bip32 as bip32
        import btc_hd_wallet.bip85 as bip85
        for mod in (helper, bip32, bip85):
            f = getattr(mod, "hmac_sha512", None)
            if f is None:
                continue

            def wrapped(key=None, msg=None, _f=f, *a, **kw):
                return seam._prf(key, msg, "module_name", lambda: _f(key=key, msg=msg))
            self._saved.append((mod, "hmac_sha512", f))
            setattr(mod, "hmac_sha512", wrapped)
        self.installed = True

    def uninstall(self):
        for mod, name, val in reversed(self._saved):
            setattr(mod, name, val)
        self._saved = []
        self.installed = False
